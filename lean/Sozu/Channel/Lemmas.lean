import Sozu.Channel.Model
set_option linter.unusedVariables false
namespace Sozu.Channel
open Buffer

/-- offsets in bounds: `memory[position..end]` and `memory[end..capacity]` are
    valid ranges, `end - position` / `capacity - end` do not underflow, and
    `data` is exactly the window. -/
def Buffer.WF (b : Buffer) : Prop :=
  b.pos ≤ b.fin ∧ b.fin ≤ b.cap ∧ b.data.length = b.fin - b.pos

theorem wf_withCapacity (c : Nat) : (Buffer.withCapacity c).WF := by
  simp [Buffer.withCapacity, Buffer.WF]

theorem wf_grow (b : Buffer) (n : Nat) (h : b.WF) : (b.grow n).WF := by
  grind [Buffer.grow, Buffer.WF]
theorem grow_data (b : Buffer) (n : Nat) : (b.grow n).data = b.data := by
  grind [Buffer.grow]
theorem grow_cap (b : Buffer) (n : Nat) : (b.grow n).cap = max b.cap n := by
  grind [Buffer.grow]
theorem grow_space (b : Buffer) (n : Nat) : b.availSpace ≤ (b.grow n).availSpace := by
  grind [Buffer.grow, Buffer.availSpace]
theorem grow_pos (b : Buffer) (n : Nat) : (b.grow n).pos = b.pos := by
  grind [Buffer.grow]

theorem wf_shift (b : Buffer) (h : b.WF) : b.shift.WF := by
  grind [Buffer.shift, Buffer.WF]
theorem shift_data (b : Buffer) : b.shift.data = b.data := by
  grind [Buffer.shift]
theorem shift_cap (b : Buffer) : b.shift.cap = b.cap := by
  grind [Buffer.shift]
theorem shift_pos (b : Buffer) : b.shift.pos = 0 := by
  grind [Buffer.shift]
theorem shift_space (b : Buffer) (h : b.WF) : b.shift.availSpace = b.cap - b.data.length := by
  grind [Buffer.shift, Buffer.availSpace, Buffer.WF]

theorem wf_shrink (b : Buffer) (t : Nat) (h : b.WF) : (b.shrink t).WF := by
  grind [Buffer.shrink, Buffer.shift, Buffer.WF]
theorem shrink_data (b : Buffer) (t : Nat) : (b.shrink t).data = b.data := by
  grind [Buffer.shrink, Buffer.shift]
theorem shrink_cap_le (b : Buffer) (t : Nat) : (b.shrink t).cap ≤ b.cap := by
  grind [Buffer.shrink, Buffer.shift]
theorem shrink_pos (b : Buffer) (t : Nat) : (b.shrink t).pos = 0 ∨ (b.shrink t) = b := by
  grind [Buffer.shrink, Buffer.shift]

theorem wf_consume (b : Buffer) (n : Nat) (h : b.WF) : (b.consume n).WF := by
  grind [Buffer.consume, Buffer.shift, Buffer.WF, Buffer.availData]
theorem consume_data (b : Buffer) (n : Nat) (h : b.WF) : (b.consume n).data = b.data.drop n := by
  grind [Buffer.consume, Buffer.shift, Buffer.WF, Buffer.availData, List.drop_eq_nil_of_le]
theorem consume_cap (b : Buffer) (n : Nat) : (b.consume n).cap = b.cap := by
  grind [Buffer.consume, Buffer.shift]
theorem consume_half (b : Buffer) (n : Nat) :
    (b.consume n).pos ≤ (b.consume n).cap / Consts.chanConsumeShiftDiv := by
  grind [Buffer.consume, Buffer.shift]

theorem wf_fill (b : Buffer) (bs : Bytes) (h : b.WF) : (b.fill bs).WF := by
  grind [Buffer.fill, Buffer.shift, Buffer.WF, Buffer.availData, Buffer.availSpace]
theorem fill_data (b : Buffer) (bs : Bytes) (h : b.WF) (hs : bs.length ≤ b.availSpace) :
    (b.fill bs).data = b.data ++ bs := by
  grind [Buffer.fill, Buffer.shift, Buffer.WF, Buffer.availData, Buffer.availSpace]
theorem fill_cap (b : Buffer) (bs : Bytes) : (b.fill bs).cap = b.cap := by
  grind [Buffer.fill, Buffer.shift]
theorem fill_pos_le (b : Buffer) (bs : Bytes) : (b.fill bs).pos ≤ b.pos := by
  grind [Buffer.fill, Buffer.shift]
theorem fill_space (b : Buffer) (bs : Bytes) (h : b.WF) (hs : bs.length ≤ b.availSpace) :
    b.availSpace - bs.length ≤ (b.fill bs).availSpace := by
  grind [Buffer.fill, Buffer.shift, Buffer.WF, Buffer.availData, Buffer.availSpace]

/-- `write_all` of a buffer that fits the free space appends it. -/
theorem writeAll_fits (fuel : Nat) (b : Buffer) (buf : Bytes) (h : b.WF)
    (hs : buf.length ≤ b.availSpace) (hf : buf.length + 1 ≤ fuel) :
    b.writeAll fuel buf = (if buf.isEmpty then b else b.fill buf, true) := by
  by_cases he : buf = []
  · subst he
    match fuel, hf with
    | f + 1, _ => simp [Buffer.writeAll]
  · have hl : 0 < buf.length := List.length_pos_iff.mpr he
    have hf2 : 2 ≤ fuel := by omega
    match fuel, hf2 with
    | f + 2, _ =>
      have hmin : min buf.length b.availSpace = buf.length := by omega
      simp [Buffer.writeAll, he, hmin, Buffer.writeAll]

theorem writeAll_wf (fuel : Nat) (b : Buffer) (buf : Bytes) (h : b.WF) :
    (b.writeAll fuel buf).1.WF := by
  fun_induction Buffer.writeAll fuel b buf <;> grind [wf_fill]

theorem writeAll_cap (fuel : Nat) (b : Buffer) (buf : Bytes) :
    (b.writeAll fuel buf).1.cap = b.cap := by
  fun_induction Buffer.writeAll fuel b buf <;> grind [fill_cap]

/-- both buffers of an endpoint have their offsets in bounds -/
def ChanWF (c : Chan) : Prop := c.front.WF ∧ c.back.WF

/-- both buffers of an endpoint are within the ceiling -/
def CapOK (c : Chan) : Prop :=
  c.front.cap ≤ max c.init c.max ∧ c.back.cap ≤ max c.init c.max

theorem growSize_some (c : Chan) (cur n : Nat) (h : c.growSize cur = some n) :
    cur < n ∧ n ≤ c.max := by
  grind [Chan.growSize, satMul]

theorem growSize_none (c : Chan) (cur : Nat) : (c.growSize cur).isNone = true ↔ c.max ≤ cur := by
  grind [Chan.growSize]

/-- what one endpoint operation may change: configuration never, capacities
    only within the ceiling, offsets stay in bounds -/
structure ChanStep (c c' : Chan) : Prop where
  init_eq : c'.init = c.init
  max_eq : c'.max = c.max
  wf : ChanWF c → ChanWF c'
  frontCap : c'.front.cap ≤ max c.front.cap c.max
  backCap : c'.back.cap ≤ max c.back.cap c.max

theorem ChanStep.refl (c : Chan) : ChanStep c c :=
  ⟨rfl, rfl, id, Nat.le_max_left _ _, Nat.le_max_left _ _⟩

theorem ChanStep.trans {a b c : Chan} (h1 : ChanStep a b) (h2 : ChanStep b c) : ChanStep a c := by
  refine ⟨h2.init_eq.trans h1.init_eq, h2.max_eq.trans h1.max_eq, fun h => h2.wf (h1.wf h), ?_, ?_⟩
  · have := h1.frontCap; have := h2.frontCap; have := h1.max_eq; grind
  · have := h1.backCap; have := h2.backCap; have := h1.max_eq; grind

theorem step_tryShrinkFront (c : Chan) : ChanStep c c.tryShrinkFront := by
  unfold Chan.tryShrinkFront
  split
  · exact ChanStep.refl c
  · split
    · refine ⟨rfl, rfl, fun h => ⟨wf_shrink _ _ h.1, h.2⟩, ?_, Nat.le_max_left _ _⟩
      have := shrink_cap_le c.front c.init; simp; omega
    · exact ChanStep.refl c

theorem step_tryShrinkBack (c : Chan) : ChanStep c c.tryShrinkBack := by
  unfold Chan.tryShrinkBack
  split
  · exact ChanStep.refl c
  · split
    · refine ⟨rfl, rfl, fun h => ⟨h.1, wf_shrink _ _ h.2⟩, Nat.le_max_left _ _, ?_⟩
      have := shrink_cap_le c.back c.init; simp; omega
    · exact ChanStep.refl c

theorem ChanStep.of_eq {c c' : Chan} (h1 : c'.front = c.front) (h2 : c'.back = c.back)
    (h3 : c'.init = c.init) (h4 : c'.max = c.max) : ChanStep c c' :=
  ⟨h3, h4, fun h => ⟨h1 ▸ h.1, h2 ▸ h.2⟩, by rw [h1]; exact Nat.le_max_left _ _,
    by rw [h2]; exact Nat.le_max_left _ _⟩

theorem ChanStep.setFront (c : Chan) (f : Buffer) (hwf : c.front.WF → f.WF)
    (hcap : f.cap ≤ max c.front.cap c.max) : ChanStep c { c with front := f } :=
  ⟨rfl, rfl, fun h => ⟨hwf h.1, h.2⟩, hcap, Nat.le_max_left _ _⟩

theorem ChanStep.setBack (c : Chan) (b : Buffer) (hwf : c.back.WF → b.WF)
    (hcap : b.cap ≤ max c.back.cap c.max) : ChanStep c { c with back := b } :=
  ⟨rfl, rfl, fun h => ⟨h.1, hwf h.2⟩, Nat.le_max_left _ _, hcap⟩

theorem step_growFrontIfFull (c : Chan) : ChanStep c c.growFrontIfFull := by
  unfold Chan.growFrontIfFull
  split
  · split
    · next n hn =>
      apply ChanStep.setFront _ _ (wf_grow _ _)
      have := growSize_some c _ _ hn; rw [grow_cap]; omega
    · exact ChanStep.refl c
  · exact ChanStep.refl c

theorem growFrontIfFull_data (c : Chan) : c.growFrontIfFull.front.data = c.front.data := by
  unfold Chan.growFrontIfFull; split
  · split <;> simp [grow_data]
  · rfl

theorem growFrontIfFull_back (c : Chan) : c.growFrontIfFull.back = c.back := by
  unfold Chan.growFrontIfFull; split
  · split <;> rfl
  · rfl

theorem reclaimIfFull_spec (c : Chan) :
    ChanStep c c.reclaimIfFull ∧ c.reclaimIfFull.back = c.back ∧
    c.reclaimIfFull.front.data = c.front.data := by
  unfold Chan.reclaimIfFull
  split
  · exact ⟨ChanStep.setFront _ _ (wf_shift _) (by rw [shift_cap]; exact Nat.le_max_left _ _), rfl,
      shift_data _⟩
  · exact ⟨ChanStep.refl c, rfl, rfl⟩

theorem readableLoop_step (closed : Bool) (fuel : Nat) (c : Chan) (rq : Bytes) (count : Nat) :
    ChanStep c (c.readableLoop closed fuel rq count).1 := by
  fun_induction Chan.readableLoop closed fuel c rq count
  · exact ChanStep.refl _
  · exact ChanStep.of_eq rfl rfl rfl rfl
  · exact (step_growFrontIfFull _).trans (ChanStep.of_eq rfl rfl rfl rfl)
  · exact (step_growFrontIfFull _).trans (ChanStep.of_eq rfl rfl rfl rfl)
  · exact (step_growFrontIfFull _).trans (ChanStep.of_eq rfl rfl rfl rfl)
  · next ih =>
    refine (((step_growFrontIfFull _).trans ?_).trans (reclaimIfFull_spec _).1).trans ih
    exact ChanStep.setFront _ _ (wf_fill _ _) (by rw [fill_cap]; exact Nat.le_max_left _ _)

theorem readableLoop_back (closed : Bool) (fuel : Nat) (c : Chan) (rq : Bytes) (count : Nat) :
    (c.readableLoop closed fuel rq count).1.back = c.back := by
  fun_induction Chan.readableLoop closed fuel c rq count <;> simp_all [(reclaimIfFull_spec _).2.1] <;> exact growFrontIfFull_back _

/-- `readable()` moves bytes from the kernel queue to the front buffer and
    neither drops, duplicates nor reorders any. -/
theorem readableLoop_data (closed : Bool) (fuel : Nat) (c : Chan) (rq : Bytes) (count : Nat)
    (h : ChanWF c) :
    (c.readableLoop closed fuel rq count).1.front.data ++ (c.readableLoop closed fuel rq count).2.1
      = c.front.data ++ rq := by
  fun_induction Chan.readableLoop closed fuel c rq count
  · rfl
  · rfl
  · simp; exact growFrontIfFull_data _
  · simp; exact growFrontIfFull_data _
  · simp; exact growFrontIfFull_data _
  · next c rq count hfull c1 hne n hn ih =>
    have hwf1 : ChanWF c1 := (step_growFrontIfFull c).wf h
    have hle : (rq.take n).length ≤ c1.front.availSpace := by
      simp only [List.length_take]; omega
    have hwf2 : ChanWF { c1 with front := c1.front.fill (rq.take n) } := ⟨wf_fill _ _ hwf1.1, hwf1.2⟩
    rw [ih ((reclaimIfFull_spec _).1.wf hwf2), (reclaimIfFull_spec _).2.2]
    simp only [fill_data _ _ hwf1.1 hle, List.append_assoc, List.take_append_drop]
    simp [c1, growFrontIfFull_data]

theorem writableLoop_step (sched : List Nat) (c : Chan) (acc : Bytes) (count : Nat) :
    ChanStep c (c.writableLoop sched acc count).1 := by
  fun_induction Chan.writableLoop sched c acc count
  · next c _ _ _ => exact ChanStep.trans (a := c) (b := { c with inW := false }) (ChanStep.of_eq rfl rfl rfl rfl) (step_tryShrinkBack _)
  · exact ChanStep.of_eq rfl rfl rfl rfl
  · exact ChanStep.of_eq rfl rfl rfl rfl
  · next ih =>
    refine (ChanStep.setBack _ _ (wf_consume _ _) ?_).trans ih
    rw [consume_cap]; exact Nat.le_max_left _ _

theorem tryShrinkBack_front (c : Chan) : c.tryShrinkBack.front = c.front := by
  unfold Chan.tryShrinkBack; split
  · rfl
  · split <;> rfl

theorem tryShrinkBack_data (c : Chan) : c.tryShrinkBack.back.data = c.back.data := by
  unfold Chan.tryShrinkBack; split
  · rfl
  · split
    · simp [shrink_data]
    · rfl

theorem tryShrinkFront_back (c : Chan) : c.tryShrinkFront.back = c.back := by
  unfold Chan.tryShrinkFront; split
  · rfl
  · split <;> rfl

theorem tryShrinkFront_data (c : Chan) : c.tryShrinkFront.front.data = c.front.data := by
  unfold Chan.tryShrinkFront; split
  · rfl
  · split
    · simp [shrink_data]
    · rfl

theorem writableLoop_front (sched : List Nat) (c : Chan) (acc : Bytes) (count : Nat) :
    (c.writableLoop sched acc count).1.front = c.front := by
  fun_induction Chan.writableLoop sched c acc count <;> simp_all [tryShrinkBack_front]

/-- `writable()` hands the kernel a prefix of the pending bytes, in order -/
theorem writableLoop_data (sched : List Nat) (c : Chan) (acc : Bytes) (count : Nat) (h : ChanWF c) :
    (c.writableLoop sched acc count).2.1 ++ (c.writableLoop sched acc count).1.back.data
      = acc ++ c.back.data := by
  fun_induction Chan.writableLoop sched c acc count
  · simp [tryShrinkBack_data]
  · rfl
  · rfl
  · next ih =>
    rw [ih ⟨h.1, wf_consume _ _ h.2⟩]
    simp [consume_data _ _ h.2, List.append_assoc]

theorem dblLoop_ge (fuel n needed : Nat) (hf : needed ≤ n + fuel) :
    needed ≤ Chan.dblLoop fuel n needed := by
  fun_induction Chan.dblLoop fuel n needed <;> grind [satMul]

theorem encodeLE_length (n : Nat) : (encodeLE n).length = 8 := rfl

theorem decode_encode (n : Nat) (h : n ≤ usizeMax) : decodeLE (encodeLE n) = n := by
  simp only [encodeLE, decodeLE, usizeMax] at *
  omega

theorem frame_length (p : Bytes) : (frame p).length = p.length + delim := by
  simp [frame, encodeLE_length, delim]; omega

theorem shiftIfShort_spec (b : Buffer) (len : Nat) (h : b.WF) :
    (Chan.shiftIfShort b len).WF ∧ (Chan.shiftIfShort b len).data = b.data ∧
    (Chan.shiftIfShort b len).cap = b.cap := by
  unfold Chan.shiftIfShort; split
  · exact ⟨wf_shift _ h, shift_data _, shift_cap _⟩
  · exact ⟨h, rfl, rfl⟩

theorem growFor_spec (b : Buffer) (len mx : Nat) (h : b.WF)
    (hfit : len > b.availSpace → len - b.availSpace + b.cap ≤ mx) :
    (Chan.growFor b len mx).WF ∧ (Chan.growFor b len mx).data = b.data ∧
    (Chan.growFor b len mx).cap ≤ max b.cap mx ∧ len ≤ (Chan.growFor b len mx).availSpace := by
  unfold Chan.growFor; split
  · next hgt =>
    have hneed := hfit hgt
    have hd := dblLoop_ge (len - b.availSpace + b.cap + 1) b.cap (len - b.availSpace + b.cap) (by omega)
    refine ⟨wf_grow _ _ h, grow_data _ _, by rw [grow_cap]; omega, ?_⟩
    obtain ⟨h1, h2, h3⟩ := h
    simp only [Buffer.availSpace, grow_cap] at *
    have : (b.grow (min (Chan.dblLoop (len - (b.cap - b.fin) + b.cap + 1) b.cap (len - (b.cap - b.fin) + b.cap)) mx)).fin = b.fin := by
      unfold Buffer.grow; split <;> rfl
    rw [this]; omega
  · exact ⟨h, rfl, Nat.le_max_left _ _, by omega⟩

theorem appendFrame_spec (b : Buffer) (n : Nat) (payload : Bytes) (h : b.WF)
    (hs : payload.length + delim ≤ b.availSpace) :
    (Chan.appendFrame b (encodeLE n) payload).2 = true ∧
    (Chan.appendFrame b (encodeLE n) payload).1.WF ∧
    (Chan.appendFrame b (encodeLE n) payload).1.cap = b.cap ∧
    (Chan.appendFrame b (encodeLE n) payload).1.data = b.data ++ (encodeLE n ++ payload) := by
  have hfit1 : (encodeLE n).length ≤ b.availSpace := by
    rw [encodeLE_length]; simp only [delim] at hs; omega
  have hw1 := writeAll_fits 9 b (encodeLE n) h hfit1 (by rw [encodeLE_length]; omega)
  have hne : (encodeLE n).isEmpty = false := rfl
  rw [hne] at hw1
  simp only [Bool.false_eq_true, if_false] at hw1
  have hb2 : (b.fill (encodeLE n)).WF := wf_fill _ _ h
  have hb2s : payload.length ≤ (b.fill (encodeLE n)).availSpace := by
    have := fill_space b _ h hfit1
    rw [encodeLE_length] at this; simp only [delim] at hs; omega
  have hw2 := writeAll_fits (payload.length + 1) _ payload hb2 hb2s (Nat.le_refl _)
  unfold Chan.appendFrame
  simp only [hw1, Bool.not_true, Bool.false_eq_true, if_false, hw2]
  by_cases he : payload = []
  · subst he
    simp [hb2, fill_cap, fill_data _ _ h hfit1]
  · have : payload.isEmpty = false := by simpa using he
    simp [this, wf_fill _ _ hb2, fill_cap, fill_data _ _ hb2 hb2s, fill_data _ _ h hfit1]

/-- What `write_delimited_message` does to the back buffer: either the whole
    frame is appended (`Ok`) or nothing is (`MessageTooLarge`); it can never
    fail half-way (`Write`). -/
theorem writeDelimited_spec (c : Chan) (payload : Bytes) (h : ChanWF c) :
    ChanStep c (c.writeDelimited payload).1 ∧ (c.writeDelimited payload).1.front = c.front ∧
    (((c.writeDelimited payload).2 = .ok () ∧
        (c.writeDelimited payload).1.back.data = c.back.data ++ frame payload) ∨
     ((c.writeDelimited payload).2 = .error (.tooLarge (payload.length + delim)) ∧
        (c.writeDelimited payload).1.back.data = c.back.data)) := by
  obtain ⟨hf, hb⟩ := h
  obtain ⟨h0w, h0d, h0c⟩ := shiftIfShort_spec c.back (payload.length + delim) hb
  unfold Chan.writeDelimited
  simp only []
  split
  · exact ⟨ChanStep.setBack _ _ (fun _ => h0w) (by rw [h0c]; exact Nat.le_max_left _ _), rfl,
      Or.inr ⟨rfl, h0d⟩⟩
  · next hnot =>
    have hfit : payload.length + delim > (Chan.shiftIfShort c.back (payload.length + delim)).availSpace →
        payload.length + delim - (Chan.shiftIfShort c.back (payload.length + delim)).availSpace
          + (Chan.shiftIfShort c.back (payload.length + delim)).cap ≤ c.max := by
      intro hgt; simp only [not_and, Nat.not_lt] at hnot; exact hnot hgt
    obtain ⟨h1w, h1d, h1c, h1s⟩ := growFor_spec _ (payload.length + delim) c.max h0w hfit
    obtain ⟨h2ok, h2w, h2c, h2d⟩ := appendFrame_spec _ (payload.length + delim) payload h1w h1s
    simp only [h2ok, if_true]
    refine ⟨ChanStep.setBack _ _ (fun _ => h2w) (by rw [h2c]; rw [h0c] at h1c; exact h1c), ?_,
      Or.inl ⟨?_, ?_⟩⟩
    · trivial
    · trivial
    · simp only [h2d, h1d, h0d, frame]

theorem tryReadTailCore_spec (c : Chan) :
    ChanStep c c.tryReadTailCore.1 ∧ c.tryReadTailCore.1.back = c.back ∧
    c.tryReadTailCore.1.front.data = c.front.data ∧
    (c.tryReadTailCore.2 = .ok none ∨ c.tryReadTailCore.2 = .error .bufferFull) := by
  unfold Chan.tryReadTailCore
  split
  · split
    · exact ⟨ChanStep.refl c, rfl, rfl, Or.inr rfl⟩
    · next hlt =>
      refine ⟨ChanStep.setFront _ _ (wf_grow _ _) ?_, rfl, grow_data _ _, Or.inl rfl⟩
      rw [grow_cap]
      cases hg : c.growSize c.front.cap with
      | none => simp
      | some n => have := growSize_some c _ _ hg; simp; omega
  · exact ⟨ChanStep.refl c, rfl, rfl, Or.inl rfl⟩

theorem tryReadTail_spec (c : Chan) :
    ChanStep c c.tryReadTail.1 ∧ c.tryReadTail.1.back = c.back ∧
    c.tryReadTail.1.front.data = c.front.data ∧
    (c.tryReadTail.2 = .ok none ∨ c.tryReadTail.2 = .error .bufferFull) := by
  obtain ⟨a1, a2, a3⟩ := reclaimIfFull_spec c
  obtain ⟨b1, b2, b3, b4⟩ := tryReadTailCore_spec c.reclaimIfFull
  unfold Chan.tryReadTail
  exact ⟨a1.trans b1, b2.trans a2, b3.trans a3, b4⟩

/-- the result of `try_read_delimited_message`, case by case -/
inductive ReadCase (dec : Bytes → Bool) (c : Chan) : Chan × Except Err (Option Bytes) → Prop
  | msg (c' : Chan) (len : Nat) (h8 : delim ≤ c.front.data.length)
      (hlen : len = decodeLE (c.front.data.take delim)) (hlo : delim ≤ len) (hmax : len ≤ c.max)
      (hhi : len ≤ c.front.data.length) (hdec : dec ((c.front.data.take len).drop delim) = true)
      (hdata : c'.front.data = c.front.data.drop len) :
      ReadCase dec c (c', .ok (some ((c.front.data.take len).drop delim)))
  | under (c' : Chan) (len : Nat) (h8 : delim ≤ c.front.data.length)
      (hlen : len = decodeLE (c.front.data.take delim)) (hlt : len < delim) (hmax : len ≤ c.max)
      (hdata : c'.front.data = c.front.data.drop delim) :
      ReadCase dec c (c', .error (.under len))
  | tooLarge (c' : Chan) (len : Nat) (h8 : delim ≤ c.front.data.length)
      (hlen : len = decodeLE (c.front.data.take delim)) (hgt : c.max < len)
      (hsame : c' = c) : ReadCase dec c (c', .error (.tooLarge len))
  | invalid (c' : Chan) (len : Nat) (h8 : delim ≤ c.front.data.length)
      (hlen : len = decodeLE (c.front.data.take delim)) (hlo : delim ≤ len) (hmax : len ≤ c.max)
      (hhi : len ≤ c.front.data.length) (hdec : dec ((c.front.data.take len).drop delim) = false)
      (hdata : c'.front.data = c.front.data.drop len) : ReadCase dec c (c', .error .invalid)
  | incomplete (c' : Chan) (r : Except Err (Option Bytes))
      (hinc : c.front.data.length < delim ∨
        (decodeLE (c.front.data.take delim) ≤ c.max ∧ delim ≤ decodeLE (c.front.data.take delim) ∧
          c.front.data.length < decodeLE (c.front.data.take delim)))
      (hr : r = .ok none ∨ (r = .error .bufferFull ∧ c.max ≤ c.front.data.length))
      (hdata : c'.front.data = c.front.data) : ReadCase dec c (c', r)

theorem tryReadTail_full (c : Chan) (hwf : ChanWF c) (h : c.tryReadTail.2 = .error .bufferFull) :
    c.max ≤ c.front.data.length := by
  unfold Chan.tryReadTail Chan.tryReadTailCore at h
  obtain ⟨h1, h2, h3⟩ := hwf.1
  split at h
  · next hsp =>
    split at h
    · next hcap =>
      by_cases h0 : c.front.availSpace = 0
      · have hrc : c.reclaimIfFull = { c with front := c.front.shift } := by
          simp [Chan.reclaimIfFull, h0]
        rw [hrc] at hsp hcap
        have hs := shift_space c.front hwf.1
        have hc := shift_cap c.front
        change c.front.shift.availSpace = 0 at hsp
        change c.front.shift.cap ≥ c.max at hcap
        omega
      · have hrc : c.reclaimIfFull = c := by simp [Chan.reclaimIfFull, h0]
        rw [hrc] at hsp; contradiction
    · cases h
  · cases h

theorem tryRead_cases (dec : Bytes → Bool) (c : Chan) (h : ChanWF c) :
    ChanStep c (c.tryRead dec).1 ∧ (c.tryRead dec).1.back = c.back ∧ ReadCase dec c (c.tryRead dec) := by
  obtain ⟨ts, tb, td, tr⟩ := tryReadTail_spec c
  have tail_case : (c.front.data.length < delim ∨
        (decodeLE (c.front.data.take delim) ≤ c.max ∧ delim ≤ decodeLE (c.front.data.take delim) ∧
          c.front.data.length < decodeLE (c.front.data.take delim))) → ReadCase dec c c.tryReadTail := by
    intro hinc
    refine ReadCase.incomplete _ _ hinc ?_ td
    rcases tr with tr | tr
    · exact Or.inl tr
    · exact Or.inr ⟨tr, tryReadTail_full c h tr⟩
  unfold Chan.tryRead
  simp only [slice, List.drop_zero]
  split
  · next h8 =>
    split
    · next hgt => exact ⟨ChanStep.refl c, rfl, ReadCase.tooLarge _ _ h8 rfl hgt rfl⟩
    · next hle =>
      split
      · next hu =>
        refine ⟨ChanStep.setFront _ _ (wf_consume _ _) (by rw [consume_cap]; exact Nat.le_max_left _ _), rfl, ?_⟩
        exact ReadCase.under _ _ h8 rfl hu (Nat.le_of_not_lt hle) (consume_data _ _ h.1)
      · next hu =>
        split
        · next hl =>
          split
          · next hd =>
            refine ⟨ChanStep.setFront _ _ (wf_consume _ _) (by rw [consume_cap]; exact Nat.le_max_left _ _), rfl, ?_⟩
            exact ReadCase.msg _ _ h8 rfl (Nat.le_of_not_lt hu) (Nat.le_of_not_lt hle) hl hd (consume_data _ _ h.1)
          · next hd =>
            refine ⟨ChanStep.setFront _ _ (wf_consume _ _) (by rw [consume_cap]; exact Nat.le_max_left _ _), rfl, ?_⟩
            exact ReadCase.invalid _ _ h8 rfl (Nat.le_of_not_lt hu) (Nat.le_of_not_lt hle) hl (by simpa using hd) (consume_data _ _ h.1)
        · next hl =>
          exact ⟨ts, tb, tail_case (Or.inr ⟨Nat.le_of_not_lt hle, Nat.le_of_not_lt hu, Nat.lt_of_not_le hl⟩)⟩
  · next h8 => exact ⟨ts, tb, tail_case (Or.inl (Nat.lt_of_not_le h8))⟩

/-- how `read_message` maps the result of `try_read_delimited_message` -/
def liftRead : Except Err (Option Bytes) → Except Err Bytes
  | .ok (some m) => .ok m
  | .ok none => .error .nothingRead
  | .error e => .error e

theorem readMessage_cases (dec : Bytes → Bool) (c : Chan) (h : ChanWF c) :
    ChanStep c (c.readMessage dec).1 ∧ (c.readMessage dec).1.back = c.back ∧
    (c.readMessage dec).1.front.data = (c.tryRead dec).1.front.data ∧
    (c.readMessage dec).2 = liftRead (c.tryRead dec).2 ∧ ReadCase dec c (c.tryRead dec) := by
  obtain ⟨hs, hb, hc⟩ := tryRead_cases dec c h
  unfold Chan.readMessage
  rcases hr : c.tryRead dec with ⟨c1, r1⟩
  rw [hr] at hs hb hc
  simp only at hs hb
  rcases r1 with e | (_ | m)
  · exact ⟨hs, hb, rfl, rfl, hc⟩
  · exact ⟨hs.trans (ChanStep.of_eq rfl rfl rfl rfl), hb, rfl, rfl, hc⟩
  · exact ⟨(hs.trans (step_tryShrinkFront _)).trans (ChanStep.of_eq rfl rfl rfl rfl),
      by show (Chan.tryShrinkFront c1).back = c.back; rw [tryShrinkFront_back]; exact hb,
      tryShrinkFront_data _, rfl, hc⟩

theorem readable_spec (c : Chan) (rq : Bytes) (closed : Bool) (h : ChanWF c) :
    ChanStep c (c.readable rq closed).1 ∧ (c.readable rq closed).1.back = c.back ∧
    (c.readable rq closed).1.front.data ++ (c.readable rq closed).2.1 = c.front.data ++ rq := by
  unfold Chan.readable
  split
  · exact ⟨ChanStep.refl c, rfl, rfl⟩
  · obtain ⟨r1, r2, r3⟩ := reclaimIfFull_spec c
    exact ⟨r1.trans (readableLoop_step ..), (readableLoop_back ..).trans r2,
      by rw [readableLoop_data _ _ _ _ _ (r1.wf h), r3]⟩

theorem writable_spec (c : Chan) (sched : List Nat) (h : ChanWF c) :
    ChanStep c (c.writable sched).1 ∧ (c.writable sched).1.front = c.front ∧
    (c.writable sched).2.1 ++ (c.writable sched).1.back.data = c.back.data := by
  unfold Chan.writable
  split
  · exact ⟨ChanStep.refl c, rfl, rfl⟩
  · exact ⟨writableLoop_step .., writableLoop_front .., by simpa using writableLoop_data sched c [] 0 h⟩

theorem writeMessage_spec (c : Chan) (payload : Bytes) (h : ChanWF c) :
    ChanStep c (c.writeMessage payload).1 ∧ (c.writeMessage payload).1.front = c.front ∧
    (((c.writeMessage payload).2 = .ok () ∧
        (c.writeMessage payload).1.back.data = c.back.data ++ frame payload) ∨
     ((c.writeMessage payload).2 = .error (.tooLarge (payload.length + delim)) ∧
        (c.writeMessage payload).1.back.data = c.back.data)) := by
  obtain ⟨hs, hf, hd⟩ := writeDelimited_spec c payload h
  unfold Chan.writeMessage
  rcases hr : c.writeDelimited payload with ⟨c1, r1⟩
  rw [hr] at hs hf hd
  simp only at hs hf hd
  rcases r1 with e | u
  · refine ⟨hs, hf, ?_⟩
    rcases hd with ⟨h1, _⟩ | ⟨h1, h2⟩
    · cases h1
    · exact Or.inr ⟨h1, h2⟩
  · refine ⟨hs.trans (ChanStep.of_eq rfl rfl rfl rfl), hf, ?_⟩
    rcases hd with ⟨h1, h2⟩ | ⟨h1, _⟩
    · exact Or.inl ⟨rfl, h2⟩
    · cases h1

/-- handle_events only touches readiness -/
theorem step_flag (c c' : Chan) (h1 : c'.front = c.front) (h2 : c'.back = c.back)
    (h3 : c'.init = c.init) (h4 : c'.max = c.max) : ChanStep c c' := ChanStep.of_eq h1 h2 h3 h4

theorem wf_flag {c c' : Chan} (h : ChanWF c) (h1 : c'.front = c.front) (h2 : c'.back = c.back) : ChanWF c' :=
  ⟨h1 ▸ h.1, h2 ▸ h.2⟩

theorem readAll_step (dec : Bytes → Bool) (fuel : Nat) (c : Chan) (acc : List Bytes) (h : ChanWF c) :
    ChanStep c (readAll dec fuel c acc).1 ∧ (readAll dec fuel c acc).1.back = c.back := by
  induction fuel generalizing c acc with
  | zero => exact ⟨ChanStep.refl c, rfl⟩
  | succ f ih =>
    obtain ⟨hs, hb, _⟩ := readMessage_cases dec c h
    unfold readAll
    rcases hr : c.readMessage dec with ⟨c1, r1⟩
    rw [hr] at hs hb
    rcases r1 with e | m
    · exact ⟨hs, hb⟩
    · obtain ⟨h1, h2⟩ := ih c1 (acc ++ [m]) (hs.wf h)
      exact ⟨hs.trans h1, h2.trans hb⟩

theorem extractLoop_step (dec : Bytes → Bool) (closed : Bool) (fuel : Nat) (c : Chan) (rq : Bytes)
    (acc : List Bytes) (h : ChanWF c) :
    ChanStep c (extractLoop dec closed fuel c rq acc).1 ∧
    (extractLoop dec closed fuel c rq acc).1.back = c.back := by
  induction fuel generalizing c rq acc with
  | zero => exact ⟨ChanStep.refl c, rfl⟩
  | succ f ih =>
    obtain ⟨hs1, hb1, _⟩ := readable_spec c rq closed h
    unfold extractLoop
    rcases hr1 : c.readable rq closed with ⟨c1, rq1, r1⟩
    rw [hr1] at hs1 hb1
    simp only at hs1 hb1
    obtain ⟨hs2, hb2, _⟩ := readMessage_cases dec c1 (hs1.wf h)
    simp only []
    rcases hr2 : c1.readMessage dec with ⟨c2, r2⟩
    rw [hr2] at hs2 hb2
    simp only at hs2 hb2
    have hwf2 := hs2.wf (hs1.wf h)
    rcases r2 with e | m
    · simp only []
      split
      · exact ⟨hs1.trans hs2, hb2.trans hb1⟩
      · obtain ⟨h1, h2⟩ := ih c2 rq1 acc hwf2
        exact ⟨(hs1.trans hs2).trans h1, h2.trans (hb2.trans hb1)⟩
    · obtain ⟨h1, h2⟩ := ih c2 rq1 (acc ++ [m]) hwf2
      exact ⟨(hs1.trans hs2).trans h1, h2.trans (hb2.trans hb1)⟩

/-- system-level: both endpoints made a `ChanStep` -/
structure SysStep (s s' : Sys) : Prop where
  w : ChanStep s.w s'.w
  r : ChanStep s.r s'.r

def SysWF (s : Sys) : Prop := ChanWF s.w ∧ ChanWF s.r

theorem SysStep.refl (s : Sys) : SysStep s s := ⟨ChanStep.refl _, ChanStep.refl _⟩
theorem SysStep.trans {a b c : Sys} (h1 : SysStep a b) (h2 : SysStep b c) : SysStep a c :=
  ⟨h1.w.trans h2.w, h1.r.trans h2.r⟩
theorem SysStep.wf {s s' : Sys} (h : SysStep s s') (hw : SysWF s) : SysWF s' :=
  ⟨h.w.wf hw.1, h.r.wf hw.2⟩

theorem stepBase_sysStep (dec : Bytes → Bool) (s : Sys) (op : Op) (h : SysWF s) :
    SysStep s (stepBase dec s op).1 := by
  cases op with
  | write p =>
    obtain ⟨hs, _, _⟩ := writeMessage_spec s.w p h.1
    simp only [stepBase]
    rcases hr : s.w.writeMessage p with ⟨w1, r1⟩
    rw [hr] at hs
    rcases r1 with e | u <;> exact ⟨hs, ChanStep.refl _⟩
  | flush sched =>
    have hwf : ChanWF { s.w with rdW := true } := wf_flag h.1 rfl rfl
    obtain ⟨hs, _, _⟩ := writable_spec { s.w with rdW := true } sched hwf
    have hs' : ChanStep s.w (Chan.writable { s.w with rdW := true } sched).1 :=
      ChanStep.trans (a := s.w) (b := { s.w with rdW := true }) (ChanStep.of_eq rfl rfl rfl rfl) hs
    simp only [stepBase]
    rcases hr : Chan.writable { s.w with rdW := true } sched with ⟨w1, acc, r1⟩
    rw [hr] at hs'
    rcases r1 with e | n <;> exact ⟨hs', ChanStep.refl _⟩
  | raw bs => exact ⟨ChanStep.refl _, ChanStep.refl _⟩
  | deliver k => exact ⟨ChanStep.refl _, ChanStep.refl _⟩
  | readable =>
    have hwf : ChanWF { s.r with rdR := true } := wf_flag h.2 rfl rfl
    obtain ⟨hs, _, _⟩ := readable_spec { s.r with rdR := true } s.rq s.closed hwf
    have hs' : ChanStep s.r (Chan.readable { s.r with rdR := true } s.rq s.closed).1 :=
      ChanStep.trans (a := s.r) (b := { s.r with rdR := true }) (ChanStep.of_eq rfl rfl rfl rfl) hs
    simp only [stepBase]
    rcases hr : Chan.readable { s.r with rdR := true } s.rq s.closed with ⟨r1, rq1, o⟩
    rw [hr] at hs'
    rcases o with e | n <;> exact ⟨ChanStep.refl _, hs'⟩
  | read =>
    obtain ⟨hs, _, _⟩ := readMessage_cases dec s.r h.2
    simp only [stepBase]
    rcases hr : s.r.readMessage dec with ⟨r1, o⟩
    rw [hr] at hs
    rcases o with e | m <;> exact ⟨ChanStep.refl _, hs⟩
  | close => exact ⟨ChanStep.refl _, ChanStep.refl _⟩
  | drain k => exact ⟨ChanStep.refl _, ChanStep.refl _⟩
  | extract =>
    have hwf : ChanWF { s.r with rdR := true } := wf_flag h.2 rfl rfl
    obtain ⟨hs, _⟩ := extractLoop_step dec s.closed (s.rq.length + s.r.front.data.length + 80)
      { s.r with rdR := true } s.rq [] hwf
    have hs' := ChanStep.trans (a := s.r) (b := { s.r with rdR := true }) (ChanStep.of_eq rfl rfl rfl rfl) hs
    simp only [stepBase]
    exact ⟨ChanStep.refl _, hs'⟩

theorem fairRound_sysStep (dec : Bytes → Bool) (s : Sys) (h : SysWF s) :
    SysStep s (fairRound dec s).1 := by
  have h1 := stepBase_sysStep dec s (.flush [usizeMax]) h
  have h2 := stepBase_sysStep dec _ (.deliver rqCap) (h1.wf h)
  have h3 := stepBase_sysStep dec _ .readable (h2.wf (h1.wf h))
  have h123 := (h1.trans h2).trans h3
  obtain ⟨h4, _⟩ := readAll_step dec
    ((stepBase dec (stepBase dec (stepBase dec s (.flush [usizeMax])).1 (.deliver rqCap)).1 .readable).1.r.front.data.length / delim + 2)
    (stepBase dec (stepBase dec (stepBase dec s (.flush [usizeMax])).1 (.deliver rqCap)).1 .readable).1.r [] (h123.wf h).2
  unfold fairRound
  exact ⟨h123.w, h123.r.trans h4⟩

theorem drainLoop_sysStep (dec : Bytes → Bool) (fuel quiet : Nat) (s : Sys) (acc : List Bytes) (e : Err)
    (h : SysWF s) : SysStep s (drainLoop dec fuel quiet s acc e).1 := by
  induction fuel generalizing quiet s acc e with
  | zero => exact SysStep.refl s
  | succ f ih =>
    have h1 := fairRound_sysStep dec s h
    unfold drainLoop
    rcases hr : fairRound dec s with ⟨s1, ms, e1⟩
    rw [hr] at h1
    simp only []
    split
    · split
      · exact h1
      · exact h1.trans (ih _ _ _ _ (h1.wf h))
    · exact h1.trans (ih _ _ _ _ (h1.wf h))

theorem step_sysStep (dec : Bytes → Bool) (s : Sys) (op : Op) (h : SysWF s) :
    SysStep s (step dec s op).1 := by
  unfold step
  split
  · exact drainLoop_sysStep dec _ 0 s [] .nothingRead h
  · exact stepBase_sysStep dec s _ h

theorem run_sysStep (dec : Bytes → Bool) (s : Sys) (ops : List Op) (h : SysWF s) :
    SysStep s (run dec s ops).1 := by
  induction ops generalizing s with
  | nil => exact SysStep.refl s
  | cons op ops ih =>
    have h1 := step_sysStep dec s op h
    simp only [run]
    exact h1.trans (ih _ (h1.wf h))

theorem sysWF_new (a b : Nat) : SysWF (Sys.new a b) :=
  ⟨⟨wf_withCapacity _, wf_withCapacity _⟩, ⟨wf_withCapacity _, wf_withCapacity _⟩⟩

/-- the byte stream made of the frames of a message list -/
def flat (ps : List Bytes) : Bytes := ps.flatMap frame

/-- all bytes in flight, oldest first: reader's front buffer, reader's kernel
    queue, the wire, writer's back buffer -/
def Sys.stream (s : Sys) : Bytes := s.r.front.data ++ (s.rq ++ (s.wire ++ s.w.back.data))

/-- prost round-trip assumption + physical size bound for a written payload -/
def Good (dec : Bytes → Bool) (p : Bytes) : Prop := dec p = true ∧ p.length + delim ≤ usizeMax

theorem flat_nil : flat [] = [] := rfl
theorem flat_cons (p : Bytes) (ps : List Bytes) : flat (p :: ps) = frame p ++ flat ps := by
  simp [flat]
theorem flat_append (a b : List Bytes) : flat (a ++ b) = flat a ++ flat b := by
  simp [flat]

theorem head_len (data T p : Bytes) (rest : List Bytes) (h : data ++ T = flat (p :: rest))
    (h8 : delim ≤ data.length) (hp : p.length + delim ≤ usizeMax) :
    decodeLE (data.take delim) = p.length + delim := by
  have h1 : (data ++ T).take delim = data.take delim := by
    rw [List.take_append_of_le_length h8]
  rw [← h1, h, flat_cons, frame, List.append_assoc]
  have : (encodeLE (p.length + delim) ++ (p ++ flat rest)).take delim = encodeLE (p.length + delim) := by
    rw [List.take_append_of_le_length (by rw [encodeLE_length]; exact Nat.le_refl _)]
    exact List.take_of_length_le (by rw [encodeLE_length]; exact Nat.le_refl _)
  rw [this]
  exact decode_encode _ hp

theorem head_complete (data T p R : Bytes) (h : data ++ T = frame p ++ R)
    (hl : p.length + delim ≤ data.length) :
    data.take (p.length + delim) = frame p ∧ data.drop (p.length + delim) ++ T = R := by
  have hf : (frame p).length = p.length + delim := frame_length p
  constructor
  · have h1 : (data ++ T).take (p.length + delim) = data.take (p.length + delim) := by
      rw [List.take_append_of_le_length hl]
    rw [← h1, h, List.take_append_of_le_length (by omega)]
    exact List.take_of_length_le (by omega)
  · have h1 : (data ++ T).drop (p.length + delim) = data.drop (p.length + delim) ++ T := by
      rw [List.drop_append_of_le_length hl]
    rw [← h1, h, List.drop_append_of_le_length (by omega), List.drop_of_length_le (by omega)]
    rfl

theorem frame_drop (p : Bytes) : (frame p).drop delim = p := by
  exact List.drop_left' (encodeLE_length _)

/-- one `read_message` on a well-formed stream: it either returns the oldest
    outstanding message and removes exactly its frame, or returns an error and
    leaves every byte where it was. -/
theorem read_fifo (dec : Bytes → Bool) (c : Chan) (T : Bytes) (pend : List Bytes) (h : ChanWF c)
    (hs : c.front.data ++ T = flat pend) (hg : ∀ p ∈ pend, Good dec p) :
    (∃ p pend', (c.readMessage dec).2 = .ok p ∧ pend = p :: pend' ∧
        (c.readMessage dec).1.front.data ++ T = flat pend') ∨
    (∃ e, (c.readMessage dec).2 = .error e ∧ (c.readMessage dec).1.front.data = c.front.data) := by
  obtain ⟨_, _, hd, hr, hc⟩ := readMessage_cases dec c h
  have nonempty : delim ≤ c.front.data.length → ∃ p rest, pend = p :: rest := by
    intro h8
    cases pend with
    | nil =>
      rw [flat_nil] at hs
      have : c.front.data = [] := (List.append_eq_nil_iff.mp hs).1
      rw [this] at h8; simp [delim] at h8
    | cons p rest => exact ⟨p, rest, rfl⟩
  rw [hr, hd]
  generalize c.tryRead dec = x at hc
  cases hc with
  | msg c' len h8 hlen hlo hmax hhi hdec hdata =>
    obtain ⟨p, rest, rfl⟩ := nonempty h8
    have hgp := hg p (List.mem_cons_self ..)
    have hl := head_len _ _ _ _ hs h8 hgp.2
    rw [hl] at hlen; subst hlen
    rw [flat_cons] at hs
    obtain ⟨ht, hdrop⟩ := head_complete _ _ _ _ hs hhi
    left
    refine ⟨p, rest, ?_, rfl, ?_⟩
    · simp only [liftRead, ht, frame_drop]
    · simp only [hdata]; exact hdrop
  | under c' len h8 hlen hlt _ hdata =>
    obtain ⟨p, rest, rfl⟩ := nonempty h8
    have hl := head_len _ _ _ _ hs h8 (hg p (List.mem_cons_self ..)).2
    omega
  | tooLarge c' len h8 hlen hgt hsame =>
    right; exact ⟨_, rfl, by rw [hsame]⟩
  | invalid c' len h8 hlen hlo hmax hhi hdec hsame =>
    obtain ⟨p, rest, rfl⟩ := nonempty h8
    have hgp := hg p (List.mem_cons_self ..)
    have hl := head_len _ _ _ _ hs h8 hgp.2
    rw [hl] at hlen; subst hlen
    rw [flat_cons] at hs
    obtain ⟨ht, _⟩ := head_complete _ _ _ _ hs hhi
    rw [ht, frame_drop, hgp.1] at hdec
    cases hdec
  | incomplete c' r hinc hr' hdata =>
    right
    rcases hr' with hr' | ⟨hr', _⟩
    · exact ⟨.nothingRead, by rw [hr']; rfl, hdata⟩
    · exact ⟨.bufferFull, by rw [hr']; rfl, hdata⟩

/-- messages a `write` op put on the channel (only when it returned `Ok`) -/
def writtenOf : Op → Out → List Bytes
  | .write p, .unit => [p]
  | _, _ => []

/-- messages an op handed to the reader's caller -/
def deliveredOf : Out → List Bytes
  | .msg p => [p]
  | .msgs ps => ps
  | .drained ps _ => ps
  | _ => []

def written : List Op → List Out → List Bytes
  | op :: ops, o :: os => writtenOf op o ++ written ops os
  | _, _ => []

def delivered : List Out → List Bytes
  | [] => []
  | o :: os => deliveredOf o ++ delivered os

def isRaw : Op → Bool
  | .raw _ => true
  | _ => false

/-- FIFO invariant: offsets in bounds and the bytes in flight are exactly the
    frames of the outstanding messages, in order -/
structure Fifo (dec : Bytes → Bool) (s : Sys) (pend : List Bytes) : Prop where
  wf : SysWF s
  stream : s.stream = flat pend
  good : ∀ p ∈ pend, Good dec p

theorem readAll_fifo (dec : Bytes → Bool) (fuel : Nat) (c : Chan) (acc : List Bytes) (T : Bytes)
    (pend : List Bytes) (h : ChanWF c) (hs : c.front.data ++ T = flat pend)
    (hg : ∀ p ∈ pend, Good dec p) :
    ∃ ms pend', (readAll dec fuel c acc).2.1 = acc ++ ms ∧ pend = ms ++ pend' ∧
      (readAll dec fuel c acc).1.front.data ++ T = flat pend' := by
  induction fuel generalizing c acc pend with
  | zero => exact ⟨[], pend, by simp [readAll], rfl, hs⟩
  | succ f ih =>
    obtain ⟨hstep, _, _⟩ := readMessage_cases dec c h
    have hrd := read_fifo dec c T pend h hs hg
    unfold readAll
    rcases hr : c.readMessage dec with ⟨c1, r1⟩
    rw [hr] at hrd hstep
    simp only at hrd hstep
    rcases r1 with e | m
    · rcases hrd with ⟨p, pend', h1, _, _⟩ | ⟨e', _, h2⟩
      · cases h1
      · exact ⟨[], pend, by simp, rfl, by rw [h2]; exact hs⟩
    · rcases hrd with ⟨p, pend', h1, h2, h3⟩ | ⟨e', h1, _⟩
      · cases h1
        subst h2
        obtain ⟨ms, pend'', i1, i2, i3⟩ := ih c1 (acc ++ [m]) pend' (hstep.wf h) h3
          (fun q hq => hg q (List.mem_cons_of_mem _ hq))
        exact ⟨m :: ms, pend'', by simp [i1], by simp [i2], i3⟩
      · cases h1

theorem extractLoop_fifo (dec : Bytes → Bool) (closed : Bool) (fuel : Nat) (c : Chan) (rq : Bytes)
    (acc : List Bytes) (T : Bytes) (pend : List Bytes) (h : ChanWF c)
    (hs : c.front.data ++ (rq ++ T) = flat pend) (hg : ∀ p ∈ pend, Good dec p) :
    ∃ ms pend', (extractLoop dec closed fuel c rq acc).2.2 = acc ++ ms ∧ pend = ms ++ pend' ∧
      (extractLoop dec closed fuel c rq acc).1.front.data ++
        ((extractLoop dec closed fuel c rq acc).2.1 ++ T) = flat pend' := by
  induction fuel generalizing c rq acc pend with
  | zero => exact ⟨[], pend, by simp [extractLoop], rfl, hs⟩
  | succ f ih =>
    obtain ⟨hs1, _, hd1⟩ := readable_spec c rq closed h
    unfold extractLoop
    rcases hr1 : c.readable rq closed with ⟨c1, rq1, r1⟩
    rw [hr1] at hs1 hd1
    simp only at hs1 hd1
    have hwf1 := hs1.wf h
    have hst1 : c1.front.data ++ (rq1 ++ T) = flat pend := by
      rw [← List.append_assoc, hd1, List.append_assoc]; exact hs
    obtain ⟨hs2, _, _⟩ := readMessage_cases dec c1 hwf1
    have hrd := read_fifo dec c1 (rq1 ++ T) pend hwf1 hst1 hg
    simp only []
    rcases hr2 : c1.readMessage dec with ⟨c2, r2⟩
    rw [hr2] at hs2 hrd
    simp only at hs2 hrd
    have hwf2 := hs2.wf hwf1
    rcases r2 with e | m
    · have hsame : c2.front.data ++ (rq1 ++ T) = flat pend := by
        rcases hrd with ⟨p, pend', h1, _, _⟩ | ⟨e', _, h2⟩
        · cases h1
        · rw [h2]; exact hst1
      simp only []
      split
      · exact ⟨[], pend, by simp, rfl, hsame⟩
      · exact ih c2 rq1 acc pend hwf2 hsame hg
    · rcases hrd with ⟨p, pend', h1, h2, h3⟩ | ⟨e', h1, _⟩
      · cases h1
        subst h2
        obtain ⟨ms, pend'', i1, i2, i3⟩ := ih c2 rq1 (acc ++ [m]) pend' hwf2 h3
          (fun q hq => hg q (List.mem_cons_of_mem _ hq))
        exact ⟨m :: ms, pend'', by simp [i1], by simp [i2], i3⟩
      · cases h1

/-- one base op keeps the FIFO invariant and accounts for what it accepted / delivered -/
theorem stepBase_fifo (dec : Bytes → Bool) (s : Sys) (op : Op) (pend : List Bytes)
    (h : Fifo dec s pend) (hraw : isRaw op = false) (hop : ∀ p, op = .write p → Good dec p) :
    ∃ pend', Fifo dec (stepBase dec s op).1 pend' ∧
      pend ++ writtenOf op (stepBase dec s op).2 = deliveredOf (stepBase dec s op).2 ++ pend' := by
  have hwf' := (stepBase_sysStep dec s op h.wf).wf h.wf
  have hst := h.stream
  unfold Sys.stream at hst
  cases op with
  | raw bs => cases hraw
  | write p =>
    obtain ⟨_, _, hd⟩ := writeMessage_spec s.w p h.wf.1
    simp only [stepBase] at hwf' ⊢
    rcases hr : s.w.writeMessage p with ⟨w1, r1⟩
    rw [hr] at hd hwf'
    simp only at hd
    rcases r1 with e | u
    · rcases hd with ⟨h1, _⟩ | ⟨_, h2⟩
      · cases h1
      · refine ⟨pend, ⟨hwf', ?_, h.good⟩, by simp [writtenOf, deliveredOf]⟩
        simp only [Sys.stream, h2]; exact hst
    · rcases hd with ⟨_, h2⟩ | ⟨h1, _⟩
      · refine ⟨pend ++ [p], ⟨hwf', ?_, ?_⟩, by simp [writtenOf, deliveredOf]⟩
        · simp only [Sys.stream, h2, flat_append, flat_cons, flat_nil, List.append_nil]
          rw [← hst]; simp [List.append_assoc]
        · intro q hq
          rcases List.mem_append.mp hq with hq | hq
          · exact h.good q hq
          · simp at hq; subst hq; exact hop _ rfl
      · cases h1
  | flush sched =>
    have hwfw : ChanWF { s.w with rdW := true } := wf_flag h.wf.1 rfl rfl
    obtain ⟨_, _, hd⟩ := writable_spec { s.w with rdW := true } sched hwfw
    simp only [stepBase] at hwf' ⊢
    rcases hr : Chan.writable { s.w with rdW := true } sched with ⟨w1, acc, r1⟩
    rw [hr] at hd hwf'
    simp only at hd
    have hst' : s.r.front.data ++ (s.rq ++ ((s.wire ++ acc) ++ w1.back.data)) = flat pend := by
      rw [List.append_assoc, hd]; exact hst
    rcases r1 with e | n <;>
      exact ⟨pend, ⟨hwf', hst', h.good⟩, by simp [writtenOf, deliveredOf]⟩
  | deliver k =>
    refine ⟨pend, ⟨hwf', ?_, h.good⟩, by simp [stepBase, writtenOf, deliveredOf]⟩
    simp only [stepBase, Sys.stream]
    rw [← hst, List.append_assoc, ← List.append_assoc (List.take _ _), List.take_append_drop]
  | readable =>
    have hwfr : ChanWF { s.r with rdR := true } := wf_flag h.wf.2 rfl rfl
    obtain ⟨_, _, hd⟩ := readable_spec { s.r with rdR := true } s.rq s.closed hwfr
    simp only [stepBase] at hwf' ⊢
    rcases hr : Chan.readable { s.r with rdR := true } s.rq s.closed with ⟨r1, rq1, o⟩
    rw [hr] at hd hwf'
    simp only at hd
    have hst' : r1.front.data ++ (rq1 ++ (s.wire ++ s.w.back.data)) = flat pend := by
      rw [← List.append_assoc, hd, List.append_assoc]; exact hst
    rcases o with e | n <;>
      exact ⟨pend, ⟨hwf', hst', h.good⟩, by simp [writtenOf, deliveredOf]⟩
  | read =>
    have hrd := read_fifo dec s.r _ pend h.wf.2 hst h.good
    simp only [stepBase] at hwf' ⊢
    rcases hr : s.r.readMessage dec with ⟨r1, o⟩
    rw [hr] at hrd hwf'
    simp only at hrd
    rcases o with e | m
    · rcases hrd with ⟨p, pend', h1, _, _⟩ | ⟨e', _, h2⟩
      · cases h1
      · refine ⟨pend, ⟨hwf', ?_, h.good⟩, by simp [writtenOf, deliveredOf]⟩
        simp only [Sys.stream, h2]; exact hst
    · rcases hrd with ⟨p, pend', h1, h2, h3⟩ | ⟨e', h1, _⟩
      · cases h1
        subst h2
        exact ⟨pend', ⟨hwf', h3, fun q hq => h.good q (List.mem_cons_of_mem _ hq)⟩,
          by simp [writtenOf, deliveredOf]⟩
      · cases h1
  | close => exact ⟨pend, ⟨hwf', hst, h.good⟩, by simp [stepBase, writtenOf, deliveredOf]⟩
  | drain k => exact ⟨pend, ⟨hwf', hst, h.good⟩, by simp [stepBase, writtenOf, deliveredOf]⟩
  | extract =>
    have hwfr : ChanWF { s.r with rdR := true } := wf_flag h.wf.2 rfl rfl
    simp only [stepBase] at hwf' ⊢
    generalize s.rq.length + s.r.front.data.length + 80 = fuel at hwf' ⊢
    have hfifo := extractLoop_fifo dec s.closed fuel { s.r with rdR := true } s.rq []
      (s.wire ++ s.w.back.data) pend hwfr hst h.good
    rcases hx : extractLoop dec s.closed fuel { s.r with rdR := true } s.rq [] with ⟨r1, rq1, ms1⟩
    rw [hx] at hfifo hwf'
    obtain ⟨ms, pend', i1, i2, i3⟩ := hfifo
    simp only [List.nil_append] at i1 i3 hwf'
    refine ⟨pend', ⟨hwf', i3, ?_⟩, ?_⟩
    · intro q hq; exact h.good q (by rw [i2]; exact List.mem_append_right _ hq)
    · simp only [writtenOf, deliveredOf, i1, List.append_nil]; exact i2

theorem fairRound_fifo (dec : Bytes → Bool) (s : Sys) (pend : List Bytes) (h : Fifo dec s pend) :
    ∃ pend', Fifo dec (fairRound dec s).1 pend' ∧ pend = (fairRound dec s).2.1 ++ pend' := by
  obtain ⟨p1, f1, e1⟩ := stepBase_fifo dec s (.flush [usizeMax]) pend h rfl (by intro p hp; cases hp)
  obtain ⟨p2, f2, e2⟩ := stepBase_fifo dec _ (.deliver rqCap) p1 f1 rfl (by intro p hp; cases hp)
  obtain ⟨p3, f3, e3⟩ := stepBase_fifo dec _ .readable p2 f2 rfl (by intro p hp; cases hp)
  have hp : p3 = pend := by
    have a1 : deliveredOf (stepBase dec s (.flush [usizeMax])).2 = [] := by
      simp only [stepBase]; split <;> rfl
    have a2 : deliveredOf (stepBase dec (stepBase dec s (.flush [usizeMax])).1 (.deliver rqCap)).2 = [] := by
      simp only [stepBase]; rfl
    have a3 : deliveredOf (stepBase dec (stepBase dec (stepBase dec s (.flush [usizeMax])).1 (.deliver rqCap)).1 .readable).2 = [] := by
      simp only [stepBase]; split <;> rfl
    simp only [writtenOf, List.append_nil, a1, a2, a3, List.nil_append] at e1 e2 e3
    rw [← e3, ← e2, ← e1]
  subst hp
  unfold fairRound
  simp only []
  generalize (stepBase dec (stepBase dec (stepBase dec s (.flush [usizeMax])).1 (.deliver rqCap)).1 .readable).1 = s3 at f3 ⊢
  generalize s3.r.front.data.length / delim + 2 = fuel
  have hst := f3.stream
  unfold Sys.stream at hst
  have hra := readAll_fifo dec fuel s3.r [] _ p3 f3.wf.2 hst f3.good
  obtain ⟨hrs, _⟩ := readAll_step dec fuel s3.r [] f3.wf.2
  rcases hx : readAll dec fuel s3.r [] with ⟨r1, ms, e⟩
  rw [hx] at hra hrs
  obtain ⟨ms', pend', i1, i2, i3⟩ := hra
  simp only [List.nil_append] at i1 i3 hrs
  subst i1
  refine ⟨pend', ⟨⟨f3.wf.1, hrs.wf f3.wf.2⟩, i3, ?_⟩, i2⟩
  intro q hq; exact f3.good q (by rw [i2]; exact List.mem_append_right _ hq)

theorem drainLoop_fifo (dec : Bytes → Bool) (fuel quiet : Nat) (s : Sys) (acc : List Bytes) (e : Err)
    (pend : List Bytes) (h : Fifo dec s pend) :
    ∃ ms pend', (drainLoop dec fuel quiet s acc e).2.1 = acc ++ ms ∧ pend = ms ++ pend' ∧
      Fifo dec (drainLoop dec fuel quiet s acc e).1 pend' := by
  induction fuel generalizing quiet s acc e pend with
  | zero => exact ⟨[], pend, by simp [drainLoop], rfl, h⟩
  | succ f ih =>
    obtain ⟨pend1, f1, e1⟩ := fairRound_fifo dec s pend h
    unfold drainLoop
    rcases hr : fairRound dec s with ⟨s1, ms, e1'⟩
    rw [hr] at f1 e1
    simp only at f1 e1 ⊢
    split
    · next hq =>
      have hms : ms = [] := by simpa using hq.1
      subst hms
      simp only [List.nil_append] at e1; subst e1
      split
      · exact ⟨[], pend, by simp, rfl, f1⟩
      · exact ih _ _ _ _ _ f1
    · obtain ⟨ms2, pend2, i1, i2, i3⟩ := ih 0 s1 (acc ++ ms) e1' pend1 f1
      exact ⟨ms ++ ms2, pend2, by simp [i1], by rw [e1, i2, List.append_assoc], i3⟩

theorem step_fifo (dec : Bytes → Bool) (s : Sys) (op : Op) (pend : List Bytes)
    (h : Fifo dec s pend) (hraw : isRaw op = false) (hop : ∀ p, op = .write p → Good dec p) :
    ∃ pend', Fifo dec (step dec s op).1 pend' ∧
      pend ++ writtenOf op (step dec s op).2 = deliveredOf (step dec s op).2 ++ pend' := by
  unfold step
  split
  · next rounds =>
    obtain ⟨ms, pend', i1, i2, i3⟩ := drainLoop_fifo dec rounds 0 s [] .nothingRead pend h
    rcases hx : drainLoop dec rounds 0 s [] .nothingRead with ⟨s1, ms1, e1⟩
    rw [hx] at i1 i3
    simp only [List.nil_append] at i1 i3
    subst i1
    exact ⟨pend', i3, by simp [writtenOf, deliveredOf, i2]⟩
  · exact stepBase_fifo dec s op pend h hraw hop

theorem run_fifo (dec : Bytes → Bool) (s : Sys) (ops : List Op) (pend : List Bytes)
    (h : Fifo dec s pend) (hraw : ∀ op ∈ ops, isRaw op = false)
    (hop : ∀ p, Op.write p ∈ ops → Good dec p) :
    ∃ pend', Fifo dec (run dec s ops).1 pend' ∧
      pend ++ written ops (run dec s ops).2 = delivered (run dec s ops).2 ++ pend' := by
  induction ops generalizing s pend with
  | nil => exact ⟨pend, h, by simp [run, written, delivered]⟩
  | cons op ops ih =>
    obtain ⟨p1, f1, e1⟩ := step_fifo dec s op pend h (hraw op (List.mem_cons_self ..))
      (fun p hp => hop p (hp ▸ List.mem_cons_self ..))
    obtain ⟨p2, f2, e2⟩ := ih _ p1 f1 (fun o ho => hraw o (List.mem_cons_of_mem _ ho))
      (fun p hp => hop p (List.mem_cons_of_mem _ hp))
    refine ⟨p2, by simpa [run] using f2, ?_⟩
    simp only [run, written, delivered]
    rw [← List.append_assoc, e1, List.append_assoc, e2, List.append_assoc]

theorem fifo_new (dec : Bytes → Bool) (a b : Nat) : Fifo dec (Sys.new a b) [] :=
  ⟨sysWF_new a b, rfl, by intro p hp; cases hp⟩

theorem head_len' (data T p R : Bytes) (h : data ++ T = frame p ++ R)
    (h8 : delim ≤ data.length) (hp : p.length + delim ≤ usizeMax) :
    decodeLE (data.take delim) = p.length + delim := by
  have h1 : (data ++ T).take delim = data.take delim := by
    rw [List.take_append_of_le_length h8]
  rw [← h1, h, frame, List.append_assoc]
  have : (encodeLE (p.length + delim) ++ (p ++ R)).take delim = encodeLE (p.length + delim) := by
    rw [List.take_append_of_le_length (by rw [encodeLE_length]; exact Nat.le_refl _)]
    exact List.take_of_length_le (by rw [encodeLE_length]; exact Nat.le_refl _)
  rw [this]
  exact decode_encode _ hp

/-- a complete, decodable, in-range frame at the head of the front buffer is
    always returned by the next `read_message`, whatever follows it -/
theorem read_complete (dec : Bytes → Bool) (c : Chan) (p R : Bytes) (h : ChanWF c)
    (hs : c.front.data = frame p ++ R) (hg : Good dec p) (hmax : p.length + delim ≤ c.max) :
    (c.readMessage dec).2 = .ok p ∧ (c.readMessage dec).1.front.data = R := by
  obtain ⟨_, _, hd, hr, hc⟩ := readMessage_cases dec c h
  have hlen : p.length + delim ≤ c.front.data.length := by
    rw [hs, List.length_append, frame_length]; omega
  have h8 : delim ≤ c.front.data.length := by omega
  have hs' : c.front.data ++ [] = frame p ++ R := by rw [List.append_nil]; exact hs
  have hl := head_len' _ _ _ _ hs' h8 hg.2
  obtain ⟨ht, hdrop⟩ := head_complete _ _ _ _ hs' hlen
  rw [List.append_nil] at hdrop
  rw [hr, hd]
  generalize c.tryRead dec = x at hc
  cases hc with
  | msg c' len _ hlen' _ _ _ _ hdata =>
    rw [hl] at hlen'; subst hlen'
    exact ⟨by simp only [liftRead, ht, frame_drop], by rw [hdata]; exact hdrop⟩
  | under c' len _ hlen' hlt _ _ => omega
  | tooLarge c' len _ hlen' hgt _ => omega
  | invalid c' len _ hlen' _ _ _ hdec _ =>
    rw [hl] at hlen'; subst hlen'
    rw [ht, frame_drop, hg.1] at hdec; cases hdec
  | incomplete c' r hinc _ _ =>
    rcases hinc with hinc | ⟨_, _, hinc⟩ <;> omega

/-- after the fix, `BufferFull` needs an incomplete head frame although the
    pending data alone already fills the ceiling -/
theorem bufferFull_shape (dec : Bytes → Bool) (c : Chan) (h : ChanWF c)
    (hr : (c.readMessage dec).2 = .error .bufferFull) :
    c.max ≤ c.front.data.length ∧
    (c.front.data.length < delim ∨ (decodeLE (c.front.data.take delim) ≤ c.max ∧
      c.front.data.length < decodeLE (c.front.data.take delim))) := by
  obtain ⟨_, _, _, hr', hc⟩ := readMessage_cases dec c h
  rw [hr'] at hr
  generalize c.tryRead dec = x at hc hr
  cases hc with
  | msg => cases hr
  | under => cases hr
  | tooLarge => cases hr
  | invalid => cases hr
  | incomplete c' r hinc hr'' _ =>
    rcases hr'' with hr'' | ⟨_, h1⟩
    · rw [hr''] at hr; cases hr
    · refine ⟨h1, ?_⟩
      rcases hinc with hinc | ⟨a, _, b⟩
      · exact Or.inl hinc
      · exact Or.inr ⟨a, b⟩

theorem shiftIfShort_space (b : Buffer) (len : Nat) (h : b.WF) :
    (len ≤ b.availSpace ∧ Chan.shiftIfShort b len = b) ∨
    (b.availSpace < len ∧ (Chan.shiftIfShort b len).availSpace = b.cap - b.data.length) := by
  unfold Chan.shiftIfShort
  split
  · next hgt => exact Or.inr ⟨hgt, shift_space b h⟩
  · next hle => exact Or.inl ⟨Nat.le_of_not_lt hle, rfl⟩

/-- the refusal test of `write_delimited_message`, in terms of pending bytes -/
theorem write_refusal_cond (c : Chan) (payload : Bytes) (h : ChanWF c) (hcap : c.back.cap ≤ c.max) :
    let b0 := Chan.shiftIfShort c.back (payload.length + delim)
    (payload.length + delim > b0.availSpace ∧ payload.length + delim - b0.availSpace + b0.cap > c.max) ↔
      c.max < c.back.data.length + (payload.length + delim) := by
  obtain ⟨h1, h2, h3⟩ := h.2
  obtain ⟨_, _, h0c⟩ := shiftIfShort_spec c.back (payload.length + delim) h.2
  simp only []
  rcases shiftIfShort_space c.back (payload.length + delim) h.2 with ⟨hle, heq⟩ | ⟨hlt, hsp⟩
  · rw [heq]
    simp only [Buffer.availSpace] at *
    constructor
    · intro ⟨a, _⟩; omega
    · intro hh; omega
  · rw [hsp, h0c]
    simp only [Buffer.availSpace] at *
    constructor
    · intro ⟨a, b⟩; omega
    · intro hh; constructor <;> omega

theorem writeMessage_snd (c : Chan) (p : Bytes) : (c.writeMessage p).2 = (c.writeDelimited p).2 := by
  unfold Chan.writeMessage
  rcases c.writeDelimited p with ⟨c1, r⟩
  cases r with
  | error e => rfl
  | ok u => cases u; rfl

theorem writeMessage_iff (c : Chan) (payload : Bytes) (h : ChanWF c) (hcap : c.back.cap ≤ c.max) :
    ((c.writeMessage payload).2 = .ok () ↔ c.back.data.length + (payload.length + delim) ≤ c.max) ∧
    ((c.writeMessage payload).2 = .error (.tooLarge (payload.length + delim)) ↔
      c.max < c.back.data.length + (payload.length + delim)) := by
  have hcond := write_refusal_cond c payload h hcap
  simp only [] at hcond
  obtain ⟨_, _, hd⟩ := writeMessage_spec c payload h
  have key : (c.writeMessage payload).2 = .error (.tooLarge (payload.length + delim)) ↔
      c.max < c.back.data.length + (payload.length + delim) := by
    rw [← hcond, writeMessage_snd]
    constructor
    · intro hh
      apply Classical.byContradiction
      intro hc
      unfold Chan.writeDelimited at hh
      simp only [] at hh
      rw [if_neg hc] at hh
      split at hh <;> simp at hh
    · intro hc
      unfold Chan.writeDelimited
      simp only []
      rw [if_pos hc]
  refine ⟨?_, key⟩
  constructor
  · intro hok
    apply Nat.le_of_not_lt
    intro hlt
    rw [key.mpr hlt] at hok; cases hok
  · intro hle
    rcases hd with ⟨a, _⟩ | ⟨a, _⟩
    · exact a
    · exact absurd (key.mp a) (Nat.not_lt.mpr hle)

/-- one round of a fair schedule: the kernel accepts everything the writer has
    pending, the peer hands everything over (up to the queue bound), the reader
    is told it is readable and calls `read_message` at least once (`k + 1` times) -/
def fairRoundOps (k : Nat) : List Op :=
  [.flush [usizeMax], .deliver rqCap, .readable] ++ List.replicate (k + 1) .read

/-- explicit fairness predicate: the schedule is `rounds` such rounds in a row -/
def FairSchedule (sched : List Op) (rounds : Nat) : Prop :=
  ∃ ks : List Nat, ks.length = rounds ∧ sched = (ks.map fairRoundOps).flatten

/-- what the fair-delivery argument needs of a state -/
structure Live (dec : Bytes → Bool) (s : Sys) (pend : List Bytes) : Prop where
  fifo : Fifo dec s pend
  fits : ∀ p ∈ pend, p.length + delim ≤ s.r.max
  armed : s.w.back.data ≠ [] → s.w.inW = true
  isOpen : s.closed = false
  small : s.w.back.data.length ≤ usizeMax

theorem step_eq_stepBase (dec : Bytes → Bool) (s : Sys) (op : Op) (h : ∀ n, op ≠ .drain n) :
    step dec s op = stepBase dec s op := by
  cases op <;> first | rfl | exact absurd rfl (h _)

/-- flushing with a schedule that accepts everything empties the back buffer -/
theorem writableLoop_all (c : Chan) (k : Nat) (acc : Bytes) (count : Nat) (h : ChanWF c)
    (hk : c.back.data.length ≤ k) :
    (c.writableLoop [k] acc count).1.back.data = [] := by
  obtain ⟨h1, h2, h3⟩ := h.2
  unfold Chan.writableLoop
  split
  · next h0 =>
    rw [tryShrinkBack_data]
    simp only [Buffer.availData] at h0
    show c.back.data = []
    exact List.eq_nil_of_length_eq_zero (by omega)
  · next h0 =>
    simp only []
    split
    · next hk0 =>
      simp only [Buffer.availData] at h0
      omega
    · next hk0 =>
      have hn : min k c.back.availData = c.back.data.length := by
        simp only [Buffer.availData]; omega
      rw [hn]
      unfold Chan.writableLoop
      have hcons := consume_data c.back c.back.data.length h.2
      have hwf := wf_consume c.back c.back.data.length h.2
      have hd0 : (c.back.consume c.back.data.length).data = [] := by rw [hcons]; simp
      have ha0 : (c.back.consume c.back.data.length).availData = 0 := by
        obtain ⟨a, b, c'⟩ := hwf
        simp only [Buffer.availData]; rw [hd0] at c'; simp at c'; omega
      simp only [ha0, if_true]
      rw [tryShrinkBack_data]
      exact hd0

theorem fifo_pend_eq {dec : Bytes → Bool} {s : Sys} {op : Op} {pend pend' : List Bytes}
    (h : pend ++ writtenOf op (stepBase dec s op).2 = deliveredOf (stepBase dec s op).2 ++ pend')
    (hw : writtenOf op (stepBase dec s op).2 = []) (hd : deliveredOf (stepBase dec s op).2 = []) :
    pend' = pend := by
  rw [hw, hd] at h; simpa using h.symm

/-- round step 1: the kernel accepts everything -/
theorem live_flush (dec : Bytes → Bool) (s : Sys) (pend : List Bytes) (h : Live dec s pend) :
    let s1 := (stepBase dec s (.flush [usizeMax])).1
    Live dec s1 pend ∧ s1.w.back.data = [] ∧ s1.pendingBytes = s.pendingBytes ∧ s1.r = s.r := by
  have hwfw : ChanWF { s.w with rdW := true } := wf_flag h.fifo.wf.1 rfl rfl
  obtain ⟨pend', hf, he⟩ := stepBase_fifo dec s (.flush [usizeMax]) pend h.fifo rfl (by intro p hp; cases hp)
  obtain ⟨_, _, hd⟩ := writable_spec { s.w with rdW := true } [usizeMax] hwfw
  have hempty : (Chan.writable { s.w with rdW := true } [usizeMax]).1.back.data = [] := by
    unfold Chan.writable
    split
    · next hc =>
      -- not armed: nothing is pending
      have : s.w.inW = false := by simpa using hc
      show s.w.back.data = []
      apply Classical.byContradiction
      intro hne; rw [h.armed hne] at this; cases this
    · exact writableLoop_all _ usizeMax [] 0 hwfw h.small
  simp only [stepBase] at hf he ⊢
  rcases hr : Chan.writable { s.w with rdW := true } [usizeMax] with ⟨w1, acc, r1⟩
  rw [hr] at hf he hd hempty
  simp only at hd hempty
  have hacc : acc = s.w.back.data := by rw [← hd, hempty, List.append_nil]
  rcases r1 with e | n
  all_goals
    simp only [writtenOf, deliveredOf, List.append_nil, List.nil_append] at he hf ⊢
    subst he
    refine ⟨⟨hf, h.fits, ?_, h.isOpen, ?_⟩, hempty, ?_, trivial⟩
    · intro hne; exact absurd hempty hne
    · simp [hempty]
    · simp only [Sys.pendingBytes, hempty, hacc, List.length_append, List.length_nil]; omega

/-- round step 2: the peer hands over everything (up to the queue bound) -/
theorem live_deliver (dec : Bytes → Bool) (s : Sys) (pend : List Bytes) (h : Live dec s pend)
    (hb : s.w.back.data = []) :
    let s2 := (stepBase dec s (.deliver rqCap)).1
    Live dec s2 pend ∧ s2.pendingBytes = s.pendingBytes ∧ s2.r = s.r ∧ s2.w = s.w ∧
    (0 < s2.pendingBytes → s2.rq ≠ []) := by
  obtain ⟨pend', hf, he⟩ := stepBase_fifo dec s (.deliver rqCap) pend h.fifo rfl (by intro p hp; cases hp)
  simp only [stepBase, writtenOf, deliveredOf, List.append_nil, List.nil_append] at hf he ⊢
  subst he
  have hop := h.isOpen
  refine ⟨⟨hf, h.fits, h.armed, h.isOpen, h.small⟩, ?_, trivial, trivial, ?_⟩
  · simp only [Sys.pendingBytes, hop, List.length_append, List.length_drop, List.length_take]
    simp only [Bool.false_eq_true, if_false]
    omega
  · simp only [Sys.pendingBytes, hop, hb, List.length_nil, Bool.false_eq_true, if_false]
    intro hpos
    cases hrq : s.rq with
    | cons a t => simp
    | nil =>
      simp only [hrq, List.length_nil, List.nil_append, List.length_drop, List.length_take] at hpos ⊢
      have hw : 0 < s.wire.length := by omega
      intro hnil
      have := congrArg List.length hnil
      simp only [List.length_take, List.length_nil, rqCap] at this
      omega

theorem readableLoop_rq_le (closed : Bool) (fuel : Nat) (c : Chan) (rq : Bytes) (count : Nat) :
    (c.readableLoop closed fuel rq count).2.1.length ≤ rq.length := by
  fun_induction Chan.readableLoop closed fuel c rq count <;> simp_all <;> omega

theorem reclaim_full (c : Chan) (h : ChanWF c) (hs : c.reclaimIfFull.front.availSpace = 0) :
    c.reclaimIfFull.front.data.length = c.reclaimIfFull.front.cap := by
  have hw := ((reclaimIfFull_spec c).1.wf h).1
  obtain ⟨h1, h2, h3⟩ := hw
  unfold Chan.reclaimIfFull at hs ⊢
  split
  · next h0 =>
    rw [if_pos h0] at hs
    have := shift_space c.front h.1
    have hc := shift_cap c.front
    have hd := shift_data c.front
    change c.front.shift.availSpace = 0 at hs
    show c.front.shift.data.length = c.front.shift.cap
    obtain ⟨a, b, d⟩ := h.1
    rw [hd, hc]; omega
  · next h0 =>
    rw [if_neg h0] at hs; exact absurd hs h0

/-- `readable()` on a non-empty socket either pulls at least one byte or stops
    because the front buffer already holds a full ceiling of pending data -/
theorem readableLoop_progress (fuel : Nat) (c : Chan) (rq : Bytes) (count : Nat) (hwf : ChanWF c)
    (hrq : rq ≠ []) (hfull : c.front.availSpace = 0 → c.front.data.length = c.front.cap) :
    (c.readableLoop false (fuel + 1) rq count).2.1.length < rq.length ∨
    (c.max ≤ c.front.data.length ∧
      (c.readableLoop false (fuel + 1) rq count).1.front.data = c.front.data) := by
  unfold Chan.readableLoop
  split
  · next hc =>
    right
    have := (growSize_none c c.front.cap).mp hc.2
    rw [hfull hc.1]
    exact ⟨this, rfl⟩
  · next hc =>
    left
    have hne : rq.isEmpty = false := by simpa using hrq
    simp only [hne, Bool.false_eq_true, if_false]
    have hsp : 0 < c.growFrontIfFull.front.availSpace := by
      unfold Chan.growFrontIfFull
      split
      · next h0 =>
        cases hg : c.growSize c.front.cap with
        | none => exact absurd ⟨h0, by simp [hg]⟩ hc
        | some n =>
          have := growSize_some c _ _ hg
          obtain ⟨a, b, d⟩ := hwf.1
          simp only [Buffer.availSpace, Buffer.grow] at h0 ⊢
          split <;> simp <;> omega
      · next h0 => omega
    have hlen : 0 < rq.length := List.length_pos_iff.mpr hrq
    have hn : min c.growFrontIfFull.front.availSpace rq.length ≠ 0 := by omega
    simp only [hn, if_false]
    have := readableLoop_rq_le false fuel
      (Chan.reclaimIfFull { c.growFrontIfFull with front := c.growFrontIfFull.front.fill (rq.take (min c.growFrontIfFull.front.availSpace rq.length)) })
      (rq.drop (min c.growFrontIfFull.front.availSpace rq.length)) (count + min c.growFrontIfFull.front.availSpace rq.length)
    simp only [List.length_drop] at this
    omega

/-- round step 3: the reader is told it is readable -/
theorem live_readable (dec : Bytes → Bool) (s : Sys) (pend : List Bytes) (h : Live dec s pend) :
    let s3 := (stepBase dec s .readable).1
    Live dec s3 pend ∧ s3.w = s.w ∧ s3.pendingBytes ≤ s.pendingBytes ∧ s3.r.max = s.r.max ∧
    (s.r.inR = true → s.rq ≠ [] →
      s3.pendingBytes < s.pendingBytes ∨ s3.r.max ≤ s3.r.front.data.length) := by
  obtain ⟨pend', hf, he⟩ := stepBase_fifo dec s .readable pend h.fifo rfl (by intro p hp; cases hp)
  have hwfr : ChanWF { s.r with rdR := true } := wf_flag h.fifo.wf.2 rfl rfl
  obtain ⟨hstep, _, _⟩ := readable_spec { s.r with rdR := true } s.rq s.closed hwfr
  have hmax : (Chan.readable { s.r with rdR := true } s.rq s.closed).1.max = s.r.max := hstep.max_eq
  have hlen : (Chan.readable { s.r with rdR := true } s.rq s.closed).2.1.length ≤ s.rq.length := by
    unfold Chan.readable; split
    · exact Nat.le_refl _
    · exact readableLoop_rq_le ..
  have hprog : s.r.inR = true → s.rq ≠ [] →
      (Chan.readable { s.r with rdR := true } s.rq s.closed).2.1.length < s.rq.length ∨
      s.r.max ≤ (Chan.readable { s.r with rdR := true } s.rq s.closed).1.front.data.length := by
    intro hin hrq
    rw [h.isOpen]
    unfold Chan.readable
    split
    · next hc => exfalso; simp [hin] at hc
    · have hwf0 := (reclaimIfFull_spec { s.r with rdR := true }).1.wf hwfr
      rcases readableLoop_progress (s.rq.length + 1) (Chan.reclaimIfFull { s.r with rdR := true }) s.rq 0 hwf0 hrq
        (reclaim_full _ hwfr) with hp | ⟨hp1, hp2⟩
      · exact Or.inl hp
      · right
        have hm : (Chan.reclaimIfFull { s.r with rdR := true }).max = s.r.max := (reclaimIfFull_spec _).1.max_eq
        rw [hm] at hp1
        show s.r.max ≤ (Chan.readableLoop false (s.rq.length + 1 + 1) (Chan.reclaimIfFull { s.r with rdR := true }) s.rq 0).1.front.data.length
        rw [hp2]; exact hp1
  simp only [stepBase] at hf he ⊢
  rcases hr : Chan.readable { s.r with rdR := true } s.rq s.closed with ⟨r1, rq1, o⟩
  rw [hr] at hf he hmax hlen hprog
  simp only at hmax hlen hprog
  rcases o with e | n
  all_goals
    simp only [writtenOf, deliveredOf, List.append_nil, List.nil_append] at he hf ⊢
    subst he
    refine ⟨⟨hf, ?_, h.armed, h.isOpen, h.small⟩, trivial, ?_, hmax, ?_⟩
    · intro p hp; rw [hmax]; exact h.fits p hp
    · simp only [Sys.pendingBytes]; omega
    · intro hin hrq
      rcases hprog hin hrq with hp | hp
      · left; simp only [Sys.pendingBytes]; omega
      · right; rw [hmax]; exact hp

theorem readMessage_inR_ok (dec : Bytes → Bool) (c : Chan) (m : Bytes)
    (h : (c.readMessage dec).2 = .ok m) : (c.readMessage dec).1.inR = true := by
  unfold Chan.readMessage at h ⊢
  rcases hx : c.tryRead dec with ⟨c1, r⟩
  rw [hx] at h
  rcases r with e | (_ | m')
  · simp at h
  · simp at h
  · rfl

theorem readMessage_of_none (dec : Bytes → Bool) (c c1 : Chan)
    (h : c.tryRead dec = (c1, .ok none)) :
    (c.readMessage dec).2 = .error .nothingRead ∧ (c.readMessage dec).1.inR = true := by
  unfold Chan.readMessage; rw [h]; exact ⟨rfl, rfl⟩

/-- on a well-formed stream whose frames fit the ceiling, `read_message`
    returns the oldest message exactly when its frame is completely buffered,
    says `NothingRead` otherwise, and leaves the READABLE interest armed -/
theorem read_live (dec : Bytes → Bool) (c : Chan) (T p : Bytes) (rest : List Bytes) (h : ChanWF c)
    (hs : c.front.data ++ T = flat (p :: rest)) (hg : Good dec p) (hfit : p.length + delim ≤ c.max) :
    (c.readMessage dec).1.inR = true ∧
    (p.length + delim ≤ c.front.data.length → (c.readMessage dec).2 = .ok p) ∧
    (c.front.data.length < p.length + delim → (c.readMessage dec).2 = .error .nothingRead) := by
  rw [flat_cons] at hs
  by_cases hc : p.length + delim ≤ c.front.data.length
  · obtain ⟨ht, hd⟩ := head_complete _ _ _ _ hs hc
    have hdata : c.front.data = frame p ++ c.front.data.drop (p.length + delim) := by
      rw [← ht, List.take_append_drop]
    have hok := (read_complete dec c p _ h hdata hg hfit).1
    exact ⟨readMessage_inR_ok dec c p hok, fun _ => hok, fun hlt => by omega⟩
  · have hlt : c.front.data.length < p.length + delim := Nat.lt_of_not_le hc
    obtain ⟨_, _, _, hr, hcase⟩ := readMessage_cases dec c h
    have hlen8 : delim ≤ c.front.data.length → decodeLE (c.front.data.take delim) = p.length + delim :=
      fun h8 => head_len' _ _ _ _ hs h8 hg.2
    generalize hx : c.tryRead dec = x at hcase hr
    cases hcase with
    | msg c' len h8 hlen _ _ hhi _ _ => rw [hlen8 h8] at hlen; omega
    | under c' len h8 hlen hu _ _ => rw [hlen8 h8] at hlen; omega
    | tooLarge c' len h8 hlen hgt _ => rw [hlen8 h8] at hlen; omega
    | invalid c' len h8 hlen _ _ hhi _ _ => rw [hlen8 h8] at hlen; omega
    | incomplete c' r hinc hr' _ =>
      rcases hr' with hr' | ⟨_, hfull⟩
      · subst hr'
        obtain ⟨a, b⟩ := readMessage_of_none dec c c' hx
        exact ⟨b, fun hle => by omega, fun _ => a⟩
      · omega

/-- round step 4: one `read_message` -/
theorem live_read (dec : Bytes → Bool) (s : Sys) (pend : List Bytes) (h : Live dec s pend) :
    ∃ pend', Live dec (stepBase dec s .read).1 pend' ∧
      pend = deliveredOf (stepBase dec s .read).2 ++ pend' ∧
      (stepBase dec s .read).1.pendingBytes = s.pendingBytes ∧
      (stepBase dec s .read).1.r.max = s.r.max ∧
      (pend ≠ [] → (stepBase dec s .read).1.r.inR = true) ∧
      (∀ p rest, pend = p :: rest → p.length + delim ≤ s.r.front.data.length →
        deliveredOf (stepBase dec s .read).2 = [p]) := by
  obtain ⟨pend', hf, he⟩ := stepBase_fifo dec s .read pend h.fifo rfl (by intro p hp; cases hp)
  obtain ⟨hstep, _, _⟩ := readMessage_cases dec s.r h.fifo.wf.2
  have hmax : (s.r.readMessage dec).1.max = s.r.max := hstep.max_eq
  have hst := h.fifo.stream
  unfold Sys.stream at hst
  have hlive : ∀ p rest, pend = p :: rest →
      (s.r.readMessage dec).1.inR = true ∧
      (p.length + delim ≤ s.r.front.data.length → (s.r.readMessage dec).2 = .ok p) := by
    intro p rest hp
    subst hp
    obtain ⟨a, b, _⟩ := read_live dec s.r _ p rest h.fifo.wf.2 hst
      (h.fifo.good p (List.mem_cons_self ..)) (h.fits p (List.mem_cons_self ..))
    exact ⟨a, b⟩
  simp only [stepBase] at hf he ⊢
  rcases hr : s.r.readMessage dec with ⟨r1, o⟩
  rw [hr] at hf he hmax hlive
  simp only at hmax hlive
  have hsub : ∀ q ∈ pend', q ∈ pend := by
    intro q hq
    rcases o with e | m <;> simp only [writtenOf, deliveredOf, List.append_nil, List.nil_append] at he
    · rw [he]; exact hq
    · rw [he]; exact List.mem_cons_of_mem _ hq
  rcases o with e | m
  · simp only [writtenOf, deliveredOf, List.append_nil, List.nil_append] at he ⊢
    refine ⟨pend', ⟨hf, ?_, h.armed, h.isOpen, h.small⟩, he, rfl, hmax, ?_, ?_⟩
    · intro q hq; rw [hmax]; exact h.fits q (hsub q hq)
    · intro hne
      cases hp : pend with
      | nil => exact absurd hp hne
      | cons p rest => exact (hlive p rest hp).1
    · intro p rest hp hc
      have := (hlive p rest hp).2 hc
      cases this
  · simp only [writtenOf, deliveredOf, List.append_nil] at he ⊢
    refine ⟨pend', ⟨hf, ?_, h.armed, h.isOpen, h.small⟩, he, rfl, hmax, ?_, ?_⟩
    · intro q hq; rw [hmax]; exact h.fits q (hsub q hq)
    · intro hne
      cases hp : pend with
      | nil => exact absurd hp hne
      | cons p rest => exact (hlive p rest hp).1
    · intro p rest hp hc
      have := (hlive p rest hp).2 hc
      cases this; rfl

theorem run_append (dec : Bytes → Bool) (s : Sys) (a b : List Op) :
    run dec s (a ++ b) =
      ((run dec (run dec s a).1 b).1, (run dec s a).2 ++ (run dec (run dec s a).1 b).2) := by
  induction a generalizing s with
  | nil => simp [run]
  | cons op ops ih => simp only [List.cons_append, run, ih, List.cons_append]

theorem delivered_append (a b : List Out) : delivered (a ++ b) = delivered a ++ delivered b := by
  induction a with
  | nil => simp [delivered]
  | cons o os ih => simp [delivered, ih]

theorem run_cons (dec : Bytes → Bool) (s : Sys) (op : Op) (ops : List Op) :
    run dec s (op :: ops) =
      ((run dec (step dec s op).1 ops).1, (step dec s op).2 :: (run dec (step dec s op).1 ops).2) := rfl

/-- `n` consecutive `read_message` calls -/
theorem live_reads (dec : Bytes → Bool) (n : Nat) (s : Sys) (pend : List Bytes) (h : Live dec s pend) :
    ∃ pend', Live dec (run dec s (List.replicate n .read)).1 pend' ∧
      pend = delivered (run dec s (List.replicate n .read)).2 ++ pend' ∧
      (run dec s (List.replicate n .read)).1.pendingBytes = s.pendingBytes ∧
      (0 < n → pend' = [] ∨ (run dec s (List.replicate n .read)).1.r.inR = true) ∧
      (0 < n → ∀ p rest, pend = p :: rest → p.length + delim ≤ s.r.front.data.length →
        pend'.length < pend.length) := by
  induction n generalizing s pend with
  | zero => exact ⟨pend, by simpa [run] using h, by simp [run, delivered], rfl, by simp, by simp⟩
  | succ n ih =>
    obtain ⟨p1, l1, e1, b1, _, i1, d1⟩ := live_read dec s pend h
    obtain ⟨p2, l2, e2, b2, i2, _⟩ := ih (stepBase dec s .read).1 p1 l1
    have hstep : step dec s .read = stepBase dec s .read := rfl
    simp only [List.replicate_succ, run_cons, hstep, delivered]
    refine ⟨p2, l2, ?_, ?_, ?_, ?_⟩
    · rw [List.append_assoc, ← e2]; exact e1
    · rw [b2, b1]
    · intro _
      cases n with
      | zero =>
        simp only [List.replicate_zero, run] at l2 e2 ⊢
        simp only [delivered, List.nil_append] at e2
        subst e2
        by_cases hp : pend = []
        · left
          subst hp
          have : deliveredOf (stepBase dec s Op.read).2 ++ p1 = [] := e1.symm
          exact (List.append_eq_nil_iff.mp this).2
        · right; exact i1 hp
      | succ m => exact i2 (Nat.succ_pos _)
    · intro _ p rest hp hc
      have hd := d1 p rest hp hc
      have hl1 : p1.length < pend.length := by
        have := congrArg List.length e1
        rw [hd] at this; simp at this; omega
      have hl2 : p2.length ≤ p1.length := by
        have := congrArg List.length e2
        simp at this; omega
      omega

theorem flat_head_len (p : Bytes) (rest : List Bytes) : p.length + delim ≤ (flat (p :: rest)).length := by
  rw [flat_cons, List.length_append, frame_length]; omega

/-- one fair round: nothing is lost or reordered, the work left never grows, the
    READABLE interest is armed afterwards, and if it was armed before, the work
    left (messages outstanding + bytes not yet in the reader's buffer) shrinks -/
theorem live_round (dec : Bytes → Bool) (k : Nat) (s : Sys) (pend : List Bytes) (h : Live dec s pend) :
    ∃ pend', Live dec (run dec s (fairRoundOps k)).1 pend' ∧
      pend = delivered (run dec s (fairRoundOps k)).2 ++ pend' ∧
      (run dec s (fairRoundOps k)).1.pendingBytes ≤ s.pendingBytes ∧
      (pend' = [] ∨ (run dec s (fairRoundOps k)).1.r.inR = true) ∧
      (s.r.inR = true → pend ≠ [] →
        pend'.length + (run dec s (fairRoundOps k)).1.pendingBytes < pend.length + s.pendingBytes) := by
  obtain ⟨l1, hb1, hp1, hr1⟩ := live_flush dec s pend h
  obtain ⟨l2, hp2, hr2, hw2, hq2⟩ := live_deliver dec _ pend l1 hb1
  obtain ⟨l3, hw3, hp3, hm3, hprog⟩ := live_readable dec _ pend l2
  obtain ⟨p4, l4, e4, hp4, hq4, hd4⟩ := live_reads dec (k + 1) _ pend l3
  have e1 : step dec s (.flush [usizeMax]) = stepBase dec s (.flush [usizeMax]) := rfl
  have e2 : ∀ x, step dec x (.deliver rqCap) = stepBase dec x (.deliver rqCap) := fun _ => rfl
  have e3 : ∀ x, step dec x .readable = stepBase dec x .readable := fun _ => rfl
  have hd1 : deliveredOf (stepBase dec s (.flush [usizeMax])).2 = [] := by
    simp only [stepBase]; split <;> rfl
  have hd2 : ∀ x, deliveredOf (stepBase dec x (.deliver rqCap)).2 = [] := fun _ => rfl
  have hd3 : ∀ x, deliveredOf (stepBase dec x .readable).2 = [] := by
    intro x; simp only [stepBase]; split <;> rfl
  simp only [fairRoundOps, List.cons_append, List.nil_append, run_cons, e1, e2, e3, delivered, hd1, hd2, hd3]
  refine ⟨p4, l4, e4, by omega, hq4 (Nat.succ_pos _), ?_⟩
  intro hin hne
  have hlen4 : p4.length ≤ pend.length := by
    have := congrArg List.length e4; simp at this; omega
  cases hpd : pend with
  | nil => exact absurd hpd hne
  | cons p rest =>
    have hfit3 : p.length + delim ≤
        (stepBase dec (stepBase dec (stepBase dec s (.flush [usizeMax])).1 (.deliver rqCap)).1 .readable).1.r.max :=
      l3.fits p (by rw [hpd]; exact List.mem_cons_self ..)
    have hshort : ∀ (hc : p.length + delim ≤
        (stepBase dec (stepBase dec (stepBase dec s (.flush [usizeMax])).1 (.deliver rqCap)).1 .readable).1.r.front.data.length),
        p4.length < pend.length := fun hc => hd4 (Nat.succ_pos _) p rest hpd hc
    rw [← hpd]
    by_cases hz : (stepBase dec (stepBase dec s (.flush [usizeMax])).1 (.deliver rqCap)).1.pendingBytes = 0
    · -- everything is already in the reader's buffer: the head frame is complete
      have hz3 : (stepBase dec (stepBase dec (stepBase dec s (.flush [usizeMax])).1 (.deliver rqCap)).1 .readable).1.pendingBytes = 0 := by omega
      have hst := l3.fifo.stream
      simp only [Sys.stream] at hst
      simp only [Sys.pendingBytes] at hz3
      have a1 := List.eq_nil_of_length_eq_zero (l := (stepBase dec (stepBase dec (stepBase dec s (.flush [usizeMax])).1 (.deliver rqCap)).1 .readable).1.rq) (by omega)
      have a2 := List.eq_nil_of_length_eq_zero (l := (stepBase dec (stepBase dec (stepBase dec s (.flush [usizeMax])).1 (.deliver rqCap)).1 .readable).1.wire) (by omega)
      have a3 := List.eq_nil_of_length_eq_zero (l := (stepBase dec (stepBase dec (stepBase dec s (.flush [usizeMax])).1 (.deliver rqCap)).1 .readable).1.w.back.data) (by omega)
      rw [a1, a2, a3, List.append_nil, List.append_nil, List.append_nil, hpd] at hst
      have := hshort (by rw [hst]; exact flat_head_len p rest)
      omega
    · have hpos : 0 < (stepBase dec (stepBase dec s (.flush [usizeMax])).1 (.deliver rqCap)).1.pendingBytes := Nat.pos_of_ne_zero hz
      have hin2 : (stepBase dec (stepBase dec s (.flush [usizeMax])).1 (.deliver rqCap)).1.r.inR = true := by
        rw [hr2, hr1]; exact hin
      rcases hprog hin2 (hq2 hpos) with hlt | hfull
      · omega
      · have := hshort (by omega)
        omega

/-- `rounds` fair rounds: FIFO is kept and, once the number of rounds covers the
    work left (one extra round if the READABLE interest was not armed), every
    outstanding message has been returned -/
theorem live_rounds (dec : Bytes → Bool) (ks : List Nat) (s : Sys) (pend : List Bytes)
    (h : Live dec s pend) :
    ∃ pend', Live dec (run dec s (ks.map fairRoundOps).flatten).1 pend' ∧
      pend = delivered (run dec s (ks.map fairRoundOps).flatten).2 ++ pend' ∧
      ((pend = [] ∨ s.r.inR = true) → pend.length + s.pendingBytes ≤ ks.length → pend' = []) ∧
      (pend.length + s.pendingBytes + 1 ≤ ks.length → pend' = []) := by
  induction ks generalizing s pend with
  | nil =>
    refine ⟨pend, by simpa [run] using h, by simp [run, delivered], ?_, ?_⟩
    · intro _ hle
      simp only [List.length_nil] at hle
      exact List.eq_nil_of_length_eq_zero (by omega)
    · intro hle; simp at hle
  | cons k ks ih =>
    obtain ⟨p1, l1, e1, hb1, hq1, hs1⟩ := live_round dec k s pend h
    obtain ⟨p2, l2, e2, ha2, _⟩ := ih (run dec s (fairRoundOps k)).1 p1 l1
    simp only [List.map_cons, List.flatten_cons, run_append, delivered_append]
    have hlen1 : p1.length ≤ pend.length := by
      have := congrArg List.length e1; simp at this; omega
    have key : pend.length + s.pendingBytes ≤ ks.length → p2 = [] := by
      intro hle
      exact ha2 hq1 (by omega)
    refine ⟨p2, l2, by rw [List.append_assoc, ← e2]; exact e1, ?_, ?_⟩
    · intro hq hle
      simp only [List.length_cons] at hle
      by_cases hp : pend = []
      · subst hp
        have hp1 : p1 = [] := (List.append_eq_nil_iff.mp e1.symm).2
        subst hp1
        exact (List.append_eq_nil_iff.mp e2.symm).2
      · have hin : s.r.inR = true := by
          rcases hq with hq | hq
          · exact absurd hq hp
          · exact hq
        have := hs1 hin hp
        exact ha2 hq1 (by omega)
    · intro hle
      simp only [List.length_cons] at hle
      exact key (by omega)

/-- writer armed while bytes are pending, peer not hung up -/
def WOk (s : Sys) : Prop := (s.w.back.data ≠ [] → s.w.inW = true) ∧ s.closed = false

theorem writableLoop_armed (sched : List Nat) (c : Chan) (acc : Bytes) (count : Nat)
    (h : ChanWF c) (hin : c.inW = true) :
    (c.writableLoop sched acc count).1.back.data ≠ [] → (c.writableLoop sched acc count).1.inW = true := by
  fun_induction Chan.writableLoop sched c acc count
  · next c acc count h0 =>
    intro hne
    exfalso; apply hne
    rw [tryShrinkBack_data]
    show c.back.data = []
    obtain ⟨a, b, d⟩ := h.2
    simp only [Buffer.availData] at h0
    exact List.eq_nil_of_length_eq_zero (by omega)
  · intro _; exact hin
  · intro _; exact hin
  · next ih => exact ih ⟨h.1, wf_consume _ _ h.2⟩ hin

theorem writeDelimited_inW (c : Chan) (p : Bytes) : (c.writeDelimited p).1.inW = c.inW := by
  unfold Chan.writeDelimited
  simp only []
  split
  · rfl
  · split <;> rfl

theorem writeMessage_inW_err (c : Chan) (p : Bytes) (h : (c.writeMessage p).2 ≠ .ok ()) :
    (c.writeMessage p).1.inW = c.inW := by
  have hd := writeDelimited_inW c p
  unfold Chan.writeMessage at h ⊢
  rcases hx : c.writeDelimited p with ⟨c1, r⟩
  rw [hx] at hd h
  rcases r with e | u
  · exact hd
  · cases u; exact absurd rfl h

theorem stepBase_wok (dec : Bytes → Bool) (s : Sys) (op : Op) (hwf : SysWF s) (h : WOk s)
    (hop : op ≠ .close) : WOk (stepBase dec s op).1 := by
  obtain ⟨ha, hc⟩ := h
  cases op with
  | close => exact absurd rfl hop
  | write p =>
    obtain ⟨_, _, hd⟩ := writeMessage_spec s.w p hwf.1
    have hinw : (s.w.writeMessage p).2 = .ok () → (s.w.writeMessage p).1.inW = true := by
      unfold Chan.writeMessage
      rcases s.w.writeDelimited p with ⟨c1, r⟩
      rcases r with e | u
      · intro hh; cases hh
      · intro _; rfl
    have hsame : (s.w.writeMessage p).2 ≠ .ok () → (s.w.writeMessage p).1.inW = s.w.inW :=
      writeMessage_inW_err s.w p
    simp only [stepBase]
    rcases hr : s.w.writeMessage p with ⟨w1, r1⟩
    rw [hr] at hd hinw hsame
    simp only at hd hinw hsame
    rcases r1 with e | u
    · refine ⟨?_, hc⟩
      intro hne
      rcases hd with ⟨h1, _⟩ | ⟨_, h2⟩
      · cases h1
      · rw [hsame (by simp)]; exact ha (by rw [← h2]; exact hne)
    · exact ⟨fun _ => hinw rfl, hc⟩
  | flush sched =>
    have hwfw : ChanWF { s.w with rdW := true } := wf_flag hwf.1 rfl rfl
    have harm : (Chan.writable { s.w with rdW := true } sched).1.back.data ≠ [] →
        (Chan.writable { s.w with rdW := true } sched).1.inW = true := by
      unfold Chan.writable
      split
      · exact ha
      · next hcnd =>
        have : s.w.inW = true := by
          simp only [Bool.not_eq_true', Bool.and_eq_false_iff, not_or, Bool.not_eq_false] at hcnd
          exact hcnd.1
        exact writableLoop_armed sched _ [] 0 hwfw this
    simp only [stepBase]
    rcases hr : Chan.writable { s.w with rdW := true } sched with ⟨w1, acc, r1⟩
    rw [hr] at harm
    rcases r1 with e | n <;> exact ⟨harm, hc⟩
  | raw bs => exact ⟨ha, hc⟩
  | deliver k => exact ⟨ha, hc⟩
  | readable =>
    simp only [stepBase]
    rcases Chan.readable { s.r with rdR := true } s.rq s.closed with ⟨r1, rq1, o⟩
    rcases o with e | n <;> exact ⟨ha, hc⟩
  | read =>
    simp only [stepBase]
    rcases s.r.readMessage dec with ⟨r1, o⟩
    rcases o with e | m <;> exact ⟨ha, hc⟩
  | drain k => exact ⟨ha, hc⟩
  | extract => simp only [stepBase]; exact ⟨ha, hc⟩

theorem fairRound_wok (dec : Bytes → Bool) (s : Sys) (hwf : SysWF s) (h : WOk s) :
    WOk (fairRound dec s).1 := by
  have s1 := stepBase_sysStep dec s (.flush [usizeMax]) hwf
  have w1 := stepBase_wok dec s (.flush [usizeMax]) hwf h (by simp)
  have s2 := stepBase_sysStep dec _ (.deliver rqCap) (s1.wf hwf)
  have w2 := stepBase_wok dec _ (.deliver rqCap) (s1.wf hwf) w1 (by simp)
  have w3 := stepBase_wok dec _ .readable (s2.wf (s1.wf hwf)) w2 (by simp)
  unfold fairRound
  exact w3

theorem drainLoop_wok (dec : Bytes → Bool) (fuel quiet : Nat) (s : Sys) (acc : List Bytes) (e : Err)
    (hwf : SysWF s) (h : WOk s) : WOk (drainLoop dec fuel quiet s acc e).1 := by
  induction fuel generalizing quiet s acc e with
  | zero => exact h
  | succ f ih =>
    have h1 := fairRound_wok dec s hwf h
    have hs1 := (fairRound_sysStep dec s hwf).wf hwf
    unfold drainLoop
    rcases hr : fairRound dec s with ⟨s1, ms, e1⟩
    rw [hr] at h1 hs1
    simp only []
    split
    · split
      · exact h1
      · exact ih _ _ _ _ hs1 h1
    · exact ih _ _ _ _ hs1 h1

theorem step_wok (dec : Bytes → Bool) (s : Sys) (op : Op) (hwf : SysWF s) (h : WOk s)
    (hop : op ≠ .close) : WOk (step dec s op).1 := by
  unfold step
  split
  · exact drainLoop_wok dec _ 0 s [] .nothingRead hwf h
  · exact stepBase_wok dec s _ hwf h hop

/-- invariant of every state reached from a fresh pair with ceiling `M` -/
structure Reach (dec : Bytes → Bool) (M : Nat) (s : Sys) (pend : List Bytes) : Prop where
  fifo : Fifo dec s pend
  fitsM : ∀ p ∈ pend, p.length + delim ≤ M
  wok : WOk s
  wmax : s.w.max = M
  rmax : s.r.max = M
  wcap : s.w.back.cap ≤ M

theorem written_fits (dec : Bytes → Bool) (M : Nat) (s : Sys) (pend : List Bytes) (op : Op)
    (h : Reach dec M s pend) : ∀ q ∈ writtenOf op (step dec s op).2, q.length + delim ≤ M := by
  cases op with
  | write p =>
    have hiff := (writeMessage_iff s.w p h.fifo.wf.1 (by rw [h.wmax]; exact h.wcap)).1
    show ∀ q ∈ writtenOf (.write p) (stepBase dec s (.write p)).2, _
    simp only [stepBase]
    rcases hr : s.w.writeMessage p with ⟨w1, r1⟩
    rw [hr] at hiff
    rcases r1 with e | u
    · simp [writtenOf]
    · simp only [writtenOf, List.mem_singleton]
      intro q hq; subst hq
      have := hiff.mp rfl
      rw [h.wmax] at this; omega
  | flush _ => simp [writtenOf]
  | raw _ => simp [writtenOf]
  | deliver _ => simp [writtenOf]
  | readable => simp [writtenOf]
  | read => simp [writtenOf]
  | close => simp [writtenOf]
  | extract => simp [writtenOf]
  | drain _ => simp [writtenOf]

theorem step_reach (dec : Bytes → Bool) (M : Nat) (s : Sys) (op : Op) (pend : List Bytes)
    (h : Reach dec M s pend) (hraw : isRaw op = false) (hcl : op ≠ .close)
    (hop : ∀ p, op = .write p → Good dec p) :
    ∃ pend', Reach dec M (step dec s op).1 pend' ∧
      pend ++ writtenOf op (step dec s op).2 = deliveredOf (step dec s op).2 ++ pend' := by
  obtain ⟨pend', hf, he⟩ := step_fifo dec s op pend h.fifo hraw hop
  have hs := step_sysStep dec s op h.fifo.wf
  have hw := step_wok dec s op h.fifo.wf h.wok hcl
  have hwf := written_fits dec M s pend op h
  refine ⟨pend', ⟨hf, ?_, hw, hs.w.max_eq.trans h.wmax, hs.r.max_eq.trans h.rmax, ?_⟩, he⟩
  · intro q hq
    have : q ∈ pend ++ writtenOf op (step dec s op).2 := by
      rw [he]; exact List.mem_append_right _ hq
    rcases List.mem_append.mp this with hq | hq
    · exact h.fitsM q hq
    · exact hwf q hq
  · have := hs.w.backCap
    rw [h.wmax] at this
    have := h.wcap
    omega

theorem run_reach (dec : Bytes → Bool) (M : Nat) (s : Sys) (ops : List Op) (pend : List Bytes)
    (h : Reach dec M s pend) (hraw : ∀ op ∈ ops, isRaw op = false) (hcl : Op.close ∉ ops)
    (hop : ∀ p, Op.write p ∈ ops → Good dec p) :
    ∃ pend', Reach dec M (run dec s ops).1 pend' ∧
      pend ++ written ops (run dec s ops).2 = delivered (run dec s ops).2 ++ pend' := by
  induction ops generalizing s pend with
  | nil => exact ⟨pend, h, by simp [run, written, delivered]⟩
  | cons op ops ih =>
    obtain ⟨p1, f1, e1⟩ := step_reach dec M s op pend h (hraw op (List.mem_cons_self ..))
      (fun hc => hcl (hc ▸ List.mem_cons_self ..))
      (fun p hp => hop p (hp ▸ List.mem_cons_self ..))
    obtain ⟨p2, f2, e2⟩ := ih _ p1 f1 (fun o ho => hraw o (List.mem_cons_of_mem _ ho))
      (fun hc => hcl (List.mem_cons_of_mem _ hc))
      (fun p hp => hop p (List.mem_cons_of_mem _ hp))
    refine ⟨p2, by simpa [run] using f2, ?_⟩
    simp only [run, written, delivered]
    rw [← List.append_assoc, e1, List.append_assoc, e2, List.append_assoc]

theorem reach_new (dec : Bytes → Bool) (a b : Nat) : Reach dec (max b a) (Sys.new a b) [] := by
  refine ⟨fifo_new dec a b, ?_, ⟨?_, rfl⟩, rfl, rfl, ?_⟩
  · intro p hp; cases hp
  · intro h; exact absurd rfl h
  · show a ≤ max b a
    omega

theorem reach_live (dec : Bytes → Bool) (M : Nat) (s : Sys) (pend : List Bytes)
    (h : Reach dec M s pend) (hM : M ≤ usizeMax) : Live dec s pend := by
  refine ⟨h.fifo, ?_, h.wok.1, h.wok.2, ?_⟩
  · intro p hp; rw [h.rmax]; exact h.fitsM p hp
  · obtain ⟨a, b, c⟩ := h.fifo.wf.1.2
    have := h.wcap
    omega


/-- `try_read_delimited_message` on a well-formed stream (the blocking read
    path calls it directly): either the oldest message with exactly its frame
    removed, or nothing consumed -/
theorem tryRead_fifo (dec : Bytes → Bool) (c : Chan) (T : Bytes) (pend : List Bytes) (h : ChanWF c)
    (hs : c.front.data ++ T = flat pend) (hg : ∀ p ∈ pend, Good dec p) :
    (∃ p pend', (c.tryRead dec).2 = .ok (some p) ∧ pend = p :: pend' ∧
        (c.tryRead dec).1.front.data ++ T = flat pend') ∨
    ((∀ m, (c.tryRead dec).2 ≠ .ok (some m)) ∧ (c.tryRead dec).1.front.data = c.front.data) := by
  obtain ⟨_, _, hc⟩ := tryRead_cases dec c h
  have nonempty : delim ≤ c.front.data.length → ∃ p rest, pend = p :: rest := by
    intro h8
    cases pend with
    | nil =>
      rw [flat_nil] at hs
      have : c.front.data = [] := (List.append_eq_nil_iff.mp hs).1
      rw [this] at h8; simp [delim] at h8
    | cons p rest => exact ⟨p, rest, rfl⟩
  generalize c.tryRead dec = x at hc
  cases hc with
  | msg c' len h8 hlen hlo hmax hhi hdec hdata =>
    obtain ⟨p, rest, rfl⟩ := nonempty h8
    have hgp := hg p (List.mem_cons_self ..)
    have hl := head_len _ _ _ _ hs h8 hgp.2
    rw [hl] at hlen; subst hlen
    rw [flat_cons] at hs
    obtain ⟨ht, hdrop⟩ := head_complete _ _ _ _ hs hhi
    left
    refine ⟨p, rest, by simp only [ht, frame_drop], rfl, ?_⟩
    simp only [hdata]; exact hdrop
  | under c' len h8 hlen hlt _ hdata =>
    obtain ⟨p, rest, rfl⟩ := nonempty h8
    have hl := head_len _ _ _ _ hs h8 (hg p (List.mem_cons_self ..)).2
    omega
  | tooLarge c' len h8 hlen hgt hsame =>
    right
    refine ⟨?_, by rw [hsame]⟩
    intro m hm; cases hm
  | invalid c' len h8 hlen hlo hmax hhi hdec hdata =>
    obtain ⟨p, rest, rfl⟩ := nonempty h8
    have hgp := hg p (List.mem_cons_self ..)
    have hl := head_len _ _ _ _ hs h8 hgp.2
    rw [hl] at hlen; subst hlen
    rw [flat_cons] at hs
    obtain ⟨ht, _⟩ := head_complete _ _ _ _ hs hhi
    rw [ht, frame_drop, hgp.1] at hdec
    cases hdec
  | incomplete c' r hinc hr' hdata =>
    right
    refine ⟨?_, hdata⟩
    intro m hm
    rcases hr' with hr' | ⟨hr', _⟩ <;> rw [hr'] at hm <;> cases hm

theorem breadLoop_spec (dec : Bytes → Bool) (closed : Bool) (fuel : Nat) (c : Chan) (rq T : Bytes)
    (pend : List Bytes) (h : ChanWF c) (hs : c.front.data ++ (rq ++ T) = flat pend)
    (hg : ∀ p ∈ pend, Good dec p) :
    ChanStep c (breadLoop dec closed fuel c rq).1 ∧ (breadLoop dec closed fuel c rq).1.back = c.back ∧
    ((∃ p pend', (breadLoop dec closed fuel c rq).2.2 = .ok p ∧ pend = p :: pend' ∧
        (breadLoop dec closed fuel c rq).1.front.data ++ ((breadLoop dec closed fuel c rq).2.1 ++ T) = flat pend') ∨
     ((∃ e, (breadLoop dec closed fuel c rq).2.2 = .error e) ∧
        (breadLoop dec closed fuel c rq).1.front.data ++ ((breadLoop dec closed fuel c rq).2.1 ++ T) = flat pend)) := by
  induction fuel generalizing c rq with
  | zero => exact ⟨ChanStep.refl c, rfl, Or.inr ⟨⟨_, rfl⟩, hs⟩⟩
  | succ f ih =>
    obtain ⟨hstep, hback, _⟩ := tryRead_cases dec c h
    have hfifo := tryRead_fifo dec c (rq ++ T) pend h hs hg
    unfold breadLoop
    rcases hx : c.tryRead dec with ⟨c1, r⟩
    rw [hx] at hstep hback hfifo
    simp only at hstep hback hfifo
    have hwf1 := hstep.wf h
    rcases r with e | (_ | m)
    · -- error
      rcases hfifo with ⟨p, pend', h1, _, _⟩ | ⟨_, h2⟩
      · cases h1
      · exact ⟨hstep, hback, Or.inr ⟨⟨e, rfl⟩, by simp only []; rw [h2]; exact hs⟩⟩
    · -- nothing complete yet
      have hsame : c1.front.data = c.front.data := by
        rcases hfifo with ⟨p, pend', h1, _, _⟩ | ⟨_, h2⟩
        · cases h1
        · exact h2
      simp only []
      split
      · exact ⟨hstep, hback, Or.inr ⟨⟨_, rfl⟩, by simp only []; rw [hsame]; exact hs⟩⟩
      · split
        · exact ⟨hstep, hback, Or.inr ⟨⟨_, rfl⟩, by simp only []; rw [hsame]; exact hs⟩⟩
        · next hne hn =>
          have hle : (rq.take (min c1.front.availSpace rq.length)).length ≤ c1.front.availSpace := by
            simp only [List.length_take]; omega
          have hwf2 : ChanWF { c1 with front := c1.front.fill (rq.take (min c1.front.availSpace rq.length)) } :=
            ⟨wf_fill _ _ hwf1.1, hwf1.2⟩
          have hs2 : ({ c1 with front := c1.front.fill (rq.take (min c1.front.availSpace rq.length)) } : Chan).front.data ++
              (rq.drop (min c1.front.availSpace rq.length) ++ T) = flat pend := by
            simp only [fill_data _ _ hwf1.1 hle, hsame, List.append_assoc]
            rw [← List.append_assoc (List.take _ rq), List.take_append_drop]; exact hs
          obtain ⟨i1, i2, i3⟩ := ih _ _ hwf2 hs2
          refine ⟨?_, i2.trans hback, i3⟩
          exact (hstep.trans (ChanStep.setFront _ _ (wf_fill _ _) (by rw [fill_cap]; exact Nat.le_max_left _ _))).trans i1
    · -- a message
      rcases hfifo with ⟨p, pend', h1, h2, h3⟩ | ⟨h1, _⟩
      · cases h1
        refine ⟨hstep.trans (step_tryShrinkFront _), by rw [tryShrinkFront_back]; exact hback, Or.inl ⟨m, pend', rfl, h2, ?_⟩⟩
        simp only [tryShrinkFront_data]; exact h3
      · exact absurd rfl (h1 m)

theorem bwriteLoop_spec (sched : List Nat) (c : Chan) (acc : Bytes) (h : ChanWF c) :
    ChanStep c (Sozu.Channel.bwriteLoop sched c acc).1 ∧ (bwriteLoop sched c acc).1.front = c.front ∧
    (bwriteLoop sched c acc).2.1 ++ (bwriteLoop sched c acc).1.back.data = acc ++ c.back.data := by
  fun_induction bwriteLoop sched c acc
  · exact ⟨ChanStep.refl _, rfl, rfl⟩
  · exact ⟨ChanStep.refl _, rfl, rfl⟩
  · exact ⟨ChanStep.refl _, rfl, rfl⟩
  · next c acc h0 k rest hk n ih =>
    obtain ⟨i1, i2, i3⟩ := ih ⟨h.1, wf_consume _ _ h.2⟩
    refine ⟨(ChanStep.setBack _ _ (wf_consume _ _) (by rw [consume_cap]; exact Nat.le_max_left _ _)).trans i1, i2, ?_⟩
    rw [i3]
    simp [consume_data _ _ h.2, List.append_assoc]

/-- messages the writer accepted: a blocking write that reports a send timeout
    (`Err(Write)`) has nevertheless put the whole frame into the back buffer -/
def xwrittenOf : XOp → Out → List Bytes
  | .base op, o => writtenOf op o
  | .bwrite p _, .unit => [p]
  | .bwrite p _, .err .write => [p]
  | _, _ => []

def xwritten : List XOp → List Out → List Bytes
  | op :: ops, o :: os => xwrittenOf op o ++ xwritten ops os
  | _, _ => []

def xIsRaw : XOp → Bool
  | .base op => isRaw op
  | _ => false

theorem xstep_sysStep (dec : Bytes → Bool) (s : Sys) (op : XOp) (h : SysWF s) :
    SysStep s (xstep dec s op).1 := by
  cases op with
  | base op => exact step_sysStep dec s op h
  | bread =>
    -- capacity / bounds do not depend on the stream being well-formed: use the generic step lemmas
    have key : ∀ (fuel : Nat) (c : Chan) (rq : Bytes), ChanWF c →
        ChanStep c (breadLoop dec s.closed fuel c rq).1 ∧ (breadLoop dec s.closed fuel c rq).1.back = c.back := by
      intro fuel
      induction fuel with
      | zero => intro c rq _; exact ⟨ChanStep.refl c, rfl⟩
      | succ f ih =>
        intro c rq hc
        obtain ⟨hstep, hback, _⟩ := tryRead_cases dec c hc
        unfold breadLoop
        rcases hx : c.tryRead dec with ⟨c1, r⟩
        rw [hx] at hstep hback
        simp only at hstep hback
        rcases r with e | (_ | m)
        · exact ⟨hstep, hback⟩
        · simp only []
          split
          · exact ⟨hstep, hback⟩
          · split
            · exact ⟨hstep, hback⟩
            · obtain ⟨i1, i2⟩ := ih { c1 with front := c1.front.fill (rq.take (min c1.front.availSpace rq.length)) }
                (rq.drop (min c1.front.availSpace rq.length)) ⟨wf_fill _ _ (hstep.wf hc).1, (hstep.wf hc).2⟩
              exact ⟨(hstep.trans (ChanStep.setFront _ _ (wf_fill _ _) (by rw [fill_cap]; exact Nat.le_max_left _ _))).trans i1,
                i2.trans hback⟩
        · exact ⟨hstep.trans (step_tryShrinkFront _), by rw [tryShrinkFront_back]; exact hback⟩
    obtain ⟨hs, _⟩ := key (s.rq.length + 66) s.r s.rq h.2
    simp only [xstep]
    rcases hr : breadLoop dec s.closed (s.rq.length + 66) s.r s.rq with ⟨r1, rq1, o⟩
    rw [hr] at hs
    rcases o with e | m <;> exact ⟨ChanStep.refl _, hs⟩
  | bwrite p sched =>
    obtain ⟨hs, _, _⟩ := writeDelimited_spec s.w p h.1
    simp only [xstep]
    rcases hr : s.w.writeDelimited p with ⟨w1, r1⟩
    rw [hr] at hs
    simp only at hs
    rcases r1 with e | u
    · exact ⟨hs, ChanStep.refl _⟩
    · cases u
      obtain ⟨h2, _, _⟩ := bwriteLoop_spec sched w1 [] (hs.wf h.1)
      exact ⟨hs.trans h2, ChanStep.refl _⟩

theorem xrun_sysStep (dec : Bytes → Bool) (s : Sys) (ops : List XOp) (h : SysWF s) :
    SysStep s (xrun dec s ops).1 := by
  induction ops generalizing s with
  | nil => exact SysStep.refl s
  | cons op ops ih =>
    have h1 := xstep_sysStep dec s op h
    simp only [xrun]
    exact h1.trans (ih _ (h1.wf h))

theorem xstep_fifo (dec : Bytes → Bool) (s : Sys) (op : XOp) (pend : List Bytes)
    (h : Fifo dec s pend) (hraw : xIsRaw op = false)
    (hop : ∀ p, (op = .base (.write p) ∨ ∃ sc, op = .bwrite p sc) → Good dec p) :
    ∃ pend', Fifo dec (xstep dec s op).1 pend' ∧
      pend ++ xwrittenOf op (xstep dec s op).2 = deliveredOf (xstep dec s op).2 ++ pend' := by
  have hwf' := (xstep_sysStep dec s op h.wf).wf h.wf
  cases op with
  | base op =>
    exact step_fifo dec s op pend h hraw (fun p hp => hop p (Or.inl (by rw [hp])))
  | bread =>
    have hst := h.stream
    unfold Sys.stream at hst
    obtain ⟨_, _, hd⟩ := breadLoop_spec dec s.closed (s.rq.length + 66) s.r s.rq
      (s.wire ++ s.w.back.data) pend h.wf.2 hst h.good
    simp only [xstep] at hwf' ⊢
    rcases hr : breadLoop dec s.closed (s.rq.length + 66) s.r s.rq with ⟨r1, rq1, o⟩
    rw [hr] at hd hwf'
    simp only at hd
    rcases o with e | m
    · rcases hd with ⟨p, pend', h1, _, _⟩ | ⟨_, h2⟩
      · cases h1
      · exact ⟨pend, ⟨hwf', h2, h.good⟩, by simp [xwrittenOf, deliveredOf]⟩
    · rcases hd with ⟨p, pend', h1, h2, h3⟩ | ⟨⟨e, h1⟩, _⟩
      · cases h1
        subst h2
        exact ⟨pend', ⟨hwf', h3, fun q hq => h.good q (List.mem_cons_of_mem _ hq)⟩,
          by simp [xwrittenOf, deliveredOf]⟩
      · cases h1
  | bwrite p sched =>
    have hst := h.stream
    unfold Sys.stream at hst
    obtain ⟨hs, _, hd⟩ := writeDelimited_spec s.w p h.wf.1
    simp only [xstep] at hwf' ⊢
    rcases hr : s.w.writeDelimited p with ⟨w1, r1⟩
    rw [hr] at hs hd hwf'
    simp only at hs hd hwf'
    rcases r1 with e | u
    · rcases hd with ⟨h1, _⟩ | ⟨h1, h2⟩
      · cases h1
      · cases h1
        refine ⟨pend, ⟨hwf', ?_, h.good⟩, by simp [xwrittenOf, deliveredOf]⟩
        simp only [Sys.stream, h2]; exact hst
    · cases u
      simp only at hwf' ⊢
      rcases hd with ⟨_, h2⟩ | ⟨h1, _⟩
      · obtain ⟨_, _, h3⟩ := bwriteLoop_spec sched w1 [] (hs.wf h.wf.1)
        simp only [List.nil_append] at h3
        refine ⟨pend ++ [p], ⟨hwf', ?_, ?_⟩, by
          cases hb : (bwriteLoop sched w1 []).2.2 <;> simp [xwrittenOf, deliveredOf]⟩
        · simp only [Sys.stream, flat_append, flat_cons, flat_nil, List.append_nil]
          rw [← hst, List.append_assoc s.wire, h3, h2]; simp [List.append_assoc]
        · intro q hq
          rcases List.mem_append.mp hq with hq | hq
          · exact h.good q hq
          · simp at hq; subst hq; exact hop _ (Or.inr ⟨sched, rfl⟩)
      · cases h1

theorem xrun_fifo (dec : Bytes → Bool) (s : Sys) (ops : List XOp) (pend : List Bytes)
    (h : Fifo dec s pend) (hraw : ∀ op ∈ ops, xIsRaw op = false)
    (hop : ∀ p, (XOp.base (.write p) ∈ ops ∨ ∃ sc, XOp.bwrite p sc ∈ ops) → Good dec p) :
    ∃ pend', Fifo dec (xrun dec s ops).1 pend' ∧
      pend ++ xwritten ops (xrun dec s ops).2 = delivered (xrun dec s ops).2 ++ pend' := by
  induction ops generalizing s pend with
  | nil => exact ⟨pend, h, by simp [xrun, xwritten, delivered]⟩
  | cons op ops ih =>
    obtain ⟨p1, f1, e1⟩ := xstep_fifo dec s op pend h (hraw op (List.mem_cons_self ..))
      (by
        intro p hp
        apply hop p
        rcases hp with hp | ⟨sc, hp⟩
        · left; rw [hp]; exact List.mem_cons_self ..
        · right; exact ⟨sc, by rw [hp]; exact List.mem_cons_self ..⟩)
    obtain ⟨p2, f2, e2⟩ := ih _ p1 f1 (fun o ho => hraw o (List.mem_cons_of_mem _ ho))
      (by
        intro p hp
        apply hop p
        rcases hp with hp | ⟨sc, hp⟩
        · left; exact List.mem_cons_of_mem _ hp
        · right; exact ⟨sc, List.mem_cons_of_mem _ hp⟩)
    refine ⟨p2, by simpa [xrun] using f2, ?_⟩
    simp only [xrun, xwritten, delivered]
    rw [← List.append_assoc, e1, List.append_assoc, e2, List.append_assoc]

/-- the flush loop of a blocking write empties the back buffer when the kernel
    accepts everything in one go -/
theorem bwriteLoop_all (c : Chan) (k : Nat) (acc : Bytes) (h : ChanWF c) (hk : c.back.data.length ≤ k) :
    (bwriteLoop [k] c acc).1.back.data = [] := by
  obtain ⟨h1, h2, h3⟩ := h.2
  unfold bwriteLoop
  split
  · next h0 =>
    simp only [Buffer.availData] at h0
    show c.back.data = []
    exact List.eq_nil_of_length_eq_zero (by omega)
  · next h0 =>
    simp only []
    split
    · next hk0 => simp only [Buffer.availData] at h0; omega
    · next hk0 =>
      have hn : min k c.back.availData = c.back.data.length := by
        simp only [Buffer.availData]; omega
      rw [hn]
      unfold bwriteLoop
      have hcons := consume_data c.back c.back.data.length h.2
      have hwf := wf_consume c.back c.back.data.length h.2
      have hd0 : (c.back.consume c.back.data.length).data = [] := by rw [hcons]; simp
      have ha0 : (c.back.consume c.back.data.length).availData = 0 := by
        obtain ⟨a, b, c'⟩ := hwf
        simp only [Buffer.availData]; rw [hd0] at c'; simp at c'; omega
      simp only [ha0, if_true]
      exact hd0

/-- what a `Buffer` operation does to the pending bytes, as a FIFO -/
def bspecData (d : Bytes) (space : Nat) : BOp → Bytes
  | .write bytes => d ++ bytes.take (min bytes.length space)
  | .consume n => d.drop n
  | .read n => d.drop n
  | .reset => []
  | _ => d

theorem bstep_spec (b : Buffer) (op : BOp) (h : b.WF) :
    (bstep b op).1.WF ∧ (bstep b op).1.data = bspecData b.data b.availSpace op := by
  obtain ⟨h1, h2, h3⟩ := h
  cases op with
  | write bytes =>
    have hle : (bytes.take (min bytes.length b.availSpace)).length ≤ b.availSpace := by
      simp only [List.length_take]; omega
    exact ⟨wf_fill _ _ ⟨h1, h2, h3⟩, by simp only [bstep, bspecData]; exact fill_data _ _ ⟨h1, h2, h3⟩ hle⟩
  | consume n => exact ⟨wf_consume _ _ ⟨h1, h2, h3⟩, consume_data _ _ ⟨h1, h2, h3⟩⟩
  | shift => exact ⟨wf_shift _ ⟨h1, h2, h3⟩, shift_data _⟩
  | grow n => exact ⟨wf_grow _ _ ⟨h1, h2, h3⟩, grow_data _ _⟩
  | shrink n => exact ⟨wf_shrink _ _ ⟨h1, h2, h3⟩, shrink_data _ _⟩
  | reset => exact ⟨⟨Nat.le_refl _, Nat.zero_le _, rfl⟩, rfl⟩
  | read n =>
    refine ⟨⟨?_, ?_, ?_⟩, ?_⟩
    · simp only [bstep, Buffer.availData]; omega
    · exact h2
    · simp only [bstep, Buffer.availData, List.length_drop]; omega
    · simp only [bstep, bspecData, Buffer.availData]
      by_cases hn : n ≤ b.fin - b.pos
      · rw [Nat.min_eq_right hn]
      · rw [Nat.min_eq_left (by omega), List.drop_eq_nil_of_le (by omega), List.drop_eq_nil_of_le (by omega)]

/-- a blocking flush reports completion only when the back buffer is empty -/
theorem bwriteLoop_ok_empty (sched : List Nat) (c : Chan) (acc : Bytes) (h : ChanWF c)
    (hok : (bwriteLoop sched c acc).2.2 = true) : (bwriteLoop sched c acc).1.back.data = [] := by
  fun_induction bwriteLoop sched c acc
  · next c acc h0 =>
    obtain ⟨a, b, d⟩ := h.2
    simp only [Buffer.availData] at h0
    show c.back.data = []
    exact List.eq_nil_of_length_eq_zero (by omega)
  · simp at hok
  · simp at hok
  · next ih => exact ih ⟨h.1, wf_consume _ _ h.2⟩ hok

end Sozu.Channel
