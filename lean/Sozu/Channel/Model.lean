import Sozu.Generated.Consts
/-
C11 — executable model of `command/src/buffer/growable.rs::Buffer` and of
`command/src/channel.rs::Channel` (non-blocking mode), transcribed branch for
branch.  Import-free (core + generated constants) so the driver links.

What is a parameter (not modelled):
* the kernel: `Sys.wire` (bytes the kernel accepted from the writer, held by
  the peer), `Sys.rq` (bytes queued at the reader's socket), the *schedule* of
  a flush (`List Nat`: each `sock.write` call is answered by "accept k bytes",
  `0`/exhausted = `WouldBlock`), `closed` (peer hung up);
* prost: `decodes : Bytes → Bool` says whether `Rx::decode(payload)` succeeds;
  the decoded message is identified with its payload bytes.

`Buffer.data` is `memory[position..end]`; bytes outside that window are never
observable through the API used by `Channel` and are not represented.  Every
slice taken by `try_read_delimited_message` goes through `slice`, which demands
a proof of `i ≤ j ≤ length`: the model type-checks only because the code's
guards establish those bounds.
-/
namespace Sozu.Channel

abbrev Bytes := List Nat

/-- `usize::MAX` on the 64-bit targets sozu supports. -/
def usizeMax : Nat := 2 ^ 64 - 1

/-- `delimiter_size()` = `size_of::<usize>()`. -/
def delim : Nat := 8

/-- `x.saturating_mul(k)` on `usize`. -/
def satMul (x k : Nat) : Nat := min (x * k) usizeMax

/-- `usize::to_le_bytes`. -/
def encodeLE (n : Nat) : Bytes :=
  [n % 256, n / 256 % 256, n / 65536 % 256, n / 16777216 % 256,
   n / 4294967296 % 256, n / 1099511627776 % 256, n / 281474976710656 % 256,
   n / 72057594037927936 % 256]

/-- `usize::from_le_bytes` (applied to the 8-byte slice). -/
def decodeLE : Bytes → Nat
  | [] => 0
  | b :: rest => b + 256 * decodeLE rest

/-- `&l[i..j]`; total only under the bounds proof, like the Rust slice is
    panic-free only under the bounds check. -/
def slice (l : Bytes) (i j : Nat) (_h : i ≤ j ∧ j ≤ l.length) : Bytes := (l.take j).drop i

/-- the frame `write_delimited_message` produces for a payload -/
def frame (p : Bytes) : Bytes := encodeLE (p.length + delim) ++ p

/- ------------------------------------------------------------ Buffer -- -/

structure Buffer where
  cap : Nat
  pos : Nat
  fin : Nat
  data : Bytes
deriving Repr, DecidableEq, Inhabited

namespace Buffer

def withCapacity (c : Nat) : Buffer := { cap := c, pos := 0, fin := 0, data := [] }

def availData (b : Buffer) : Nat := b.fin - b.pos
def availSpace (b : Buffer) : Nat := b.cap - b.fin

def grow (b : Buffer) (n : Nat) : Buffer :=
  if b.cap ≥ n then b else { b with cap := n }

def shift (b : Buffer) : Buffer :=
  if b.pos > 0 then { b with pos := 0, fin := b.fin - b.pos } else b

def shrink (b : Buffer) (target : Nat) : Buffer :=
  if target ≥ b.cap then b
  else
    let b1 := b.shift
    if b1.fin > target then b1 else { b1 with cap := target }

def consume (b : Buffer) (count : Nat) : Buffer :=
  let cnt := min count b.availData
  let b1 := { b with pos := b.pos + cnt, data := b.data.drop cnt }
  if b1.pos > b1.cap / Consts.chanConsumeShiftDiv then b1.shift else b1

/-- `fill(count)` after `count = bytes.length` bytes were copied into `space()`. -/
def fill (b : Buffer) (bytes : Bytes) : Buffer :=
  let cnt := min bytes.length b.availSpace
  let b1 := { b with fin := b.fin + cnt, data := b.data ++ bytes.take cnt }
  if b1.availSpace < b1.availData + cnt then b1.shift else b1

/-- `<Buffer as io::Write>::write_all`: each `write` copies
    `min(buf.len, space)` bytes and `fill`s; `Ok(0)` on a non-empty buffer is
    `ErrorKind::WriteZero` (`false`). -/
def writeAll : Nat → Buffer → Bytes → Buffer × Bool
  | 0, b, buf => (b, buf.isEmpty)
  | fuel + 1, b, buf =>
    if buf.isEmpty then (b, true)
    else
      let n := min buf.length b.availSpace
      if n = 0 then (b, false)
      else writeAll fuel (b.fill (buf.take n)) (buf.drop n)

end Buffer

/- ----------------------------------------------------------- Channel -- -/

inductive Err where
  | conn                      -- Connection(None): not (interest & readiness)
  | noByteToRead
  | noByteWritten
  | tooLarge (len : Nat)      -- MessageTooLarge { message_len, .. }
  | under (len : Nat)         -- MessageLengthUnderDelimiter { message_len, .. }
  | bufferFull
  | nothingRead
  | invalid                   -- InvalidProtobufMessage
  | write                     -- Write(WriteZero)
  | timeout                   -- TimeoutReached (blocking read)
deriving Repr, DecidableEq, Inhabited

structure Chan where
  front : Buffer
  back : Buffer
  init : Nat
  max : Nat
  rdR : Bool := false   -- readiness: READABLE
  rdW : Bool := false   -- readiness: WRITABLE
  rdHup : Bool := false -- readiness: HUP
  inR : Bool := true    -- interest: READABLE
  inW : Bool := false   -- interest: WRITABLE
deriving Repr, DecidableEq, Inhabited

namespace Chan

def new (bufferSize maxBufferSize : Nat) : Chan :=
  -- `Channel::new` clamps the ceiling: `max_buffer_size.max(buffer_size)`
  { front := Buffer.withCapacity bufferSize, back := Buffer.withCapacity bufferSize,
    init := bufferSize, max := Nat.max maxBufferSize bufferSize }

/-- `grow_size` -/
def growSize (c : Chan) (cur : Nat) : Option Nat :=
  if cur ≥ c.max then none
  else
    let n1 := min (satMul cur Consts.chanGrowFactor) c.max
    let n2 := Nat.max n1 (cur + 1)
    some (min n2 c.max)

def tryShrinkFront (c : Chan) : Chan :=
  if c.front.cap ≤ c.init then c
  else if c.front.availData * Consts.chanShrinkFactor < c.init then
    { c with front := c.front.shrink c.init }
  else c

def tryShrinkBack (c : Chan) : Chan :=
  if c.back.cap ≤ c.init then c
  else if c.back.availData = 0 then { c with back := c.back.shrink c.init }
  else c

/-- reclaim the bytes of already-returned messages when the buffer has no free tail -/
def reclaimIfFull (c : Chan) : Chan :=
  if c.front.availSpace = 0 then { c with front := c.front.shift } else c

/-- `readable()`: "try to grow the buffer before giving up" -/
def growFrontIfFull (c : Chan) : Chan :=
  if c.front.availSpace = 0 then
    match c.growSize c.front.cap with
    | some n => { c with front := c.front.grow n }
    | none => c
  else c

/-- the loop of `readable()` (entered, and re-entered, after the reclaiming shift); `rq` = bytes queued in the kernel, `closed` =
    peer hung up (a read on an empty queue then returns `Ok(0)`). -/
def readableLoop (closed : Bool) : Nat → Chan → Bytes → Nat → Chan × Bytes × Except Err Nat
  | 0, c, rq, count => (c, rq, .ok count)
  | fuel + 1, c, rq, count =>
    if c.front.availSpace = 0 ∧ (c.growSize c.front.cap).isNone then
      ({ c with inR := false }, rq, .ok count)
    else
      let c1 := c.growFrontIfFull
      if rq.isEmpty then
        if closed then
          ({ c1 with inR := false, inW := false, rdR := false, rdHup := true }, rq, .error .noByteToRead)
        else ({ c1 with rdR := false }, rq, .ok count)
      else
        let n := min c1.front.availSpace rq.length
        if n = 0 then
          -- `read(&mut [])` returns Ok(0): treated as end of stream by the code
          ({ c1 with inR := false, inW := false, rdR := false, rdHup := true }, rq, .error .noByteToRead)
        else
          readableLoop closed fuel (reclaimIfFull { c1 with front := c1.front.fill (rq.take n) }) (rq.drop n) (count + n)

/-- `readable()` -/
def readable (c : Chan) (rq : Bytes) (closed : Bool) : Chan × Bytes × Except Err Nat :=
  if !(c.inR && c.rdR) then (c, rq, .error .conn)
  else readableLoop closed (rq.length + 2) c.reclaimIfFull rq 0

/-- the loop of `writable()`; returns the bytes the kernel accepted. -/
def writableLoop : List Nat → Chan → Bytes → Nat → Chan × Bytes × Except Err Nat
  | sched, c, acc, count =>
    if c.back.availData = 0 then
      (tryShrinkBack { c with inW := false }, acc, .ok count)
    else
      match sched with
      | [] => ({ c with rdW := false }, acc, .ok count)
      | k :: rest =>
        if k = 0 then ({ c with rdW := false }, acc, .ok count)
        else
          let n := min k c.back.availData
          writableLoop rest { c with back := c.back.consume n } (acc ++ c.back.data.take n) (count + n)

/-- `writable()` -/
def writable (c : Chan) (sched : List Nat) : Chan × Bytes × Except Err Nat :=
  if !(c.inW && c.rdW) then (c, [], .error .conn)
  else writableLoop sched c [] 0

/-- the `while new_length < needed` doubling loop of `write_delimited_message` -/
def dblLoop : Nat → Nat → Nat → Nat
  | 0, n, _ => n
  | fuel + 1, n, needed =>
    if n < needed then dblLoop fuel (Nat.max (satMul n Consts.chanWriteGrowFactor) (n + 1)) needed else n

/-- `if payload_len > available_space { shift }` -/
def shiftIfShort (b : Buffer) (len : Nat) : Buffer :=
  if len > b.availSpace then b.shift else b

/-- the growth branch of `write_delimited_message` (taken after the ceiling check) -/
def growFor (b : Buffer) (len max : Nat) : Buffer :=
  if len > b.availSpace then
    let needed := len - b.availSpace + b.cap
    b.grow (min (dblLoop (needed + 1) b.cap needed) max)
  else b

/-- `write_all(&delimiter)?; write_all(&payload)?` -/
def appendFrame (b : Buffer) (delimiter payload : Bytes) : Buffer × Bool :=
  let w1 := b.writeAll 9 delimiter
  if !w1.2 then (w1.1, false) else w1.1.writeAll (payload.length + 1) payload

/-- `write_delimited_message` (payload = `message.encode_to_vec()`) -/
def writeDelimited (c : Chan) (payload : Bytes) : Chan × Except Err Unit :=
  let payloadLen := payload.length + delim
  let b0 := shiftIfShort c.back payloadLen
  if payloadLen > b0.availSpace ∧ payloadLen - b0.availSpace + b0.cap > c.max then
    ({ c with back := b0 }, .error (.tooLarge payloadLen))
  else
    let r := appendFrame (growFor b0 payloadLen c.max) (encodeLE payloadLen) payload
    if r.2 then ({ c with back := r.1 }, .ok ()) else ({ c with back := r.1 }, .error .write)

/-- `write_message` in non-blocking mode -/
def writeMessage (c : Chan) (payload : Bytes) : Chan × Except Err Unit :=
  match writeDelimited c payload with
  | (c1, .ok ()) => ({ c1 with inW := true }, .ok ())
  | (c1, .error e) => (c1, .error e)

/-- the tail of `try_read_delimited_message` after the reclaiming shift -/
def tryReadTailCore (c : Chan) : Chan × Except Err (Option Bytes) :=
  if c.front.availSpace = 0 then
    if c.front.cap ≥ c.max then (c, .error .bufferFull)
    else ({ c with front := c.front.grow ((c.growSize c.front.cap).getD c.max) }, .ok none)
  else (c, .ok none)

/-- the tail of `try_read_delimited_message` (no complete frame available) -/
def tryReadTail (c : Chan) : Chan × Except Err (Option Bytes) := tryReadTailCore (reclaimIfFull c)

/-- `try_read_delimited_message` -/
def tryRead (decodes : Bytes → Bool) (c : Chan) : Chan × Except Err (Option Bytes) :=
  let buffer := c.front.data
  if h8 : buffer.length ≥ delim then
    let messageLen := decodeLE (slice buffer 0 delim ⟨Nat.zero_le _, h8⟩)
    if messageLen > c.max then (c, .error (.tooLarge messageLen))
    else if hu : messageLen < delim then
      ({ c with front := c.front.consume delim }, .error (.under messageLen))
    else if hl : buffer.length ≥ messageLen then
      let payload := slice buffer delim messageLen ⟨Nat.le_of_not_lt hu, hl⟩
      if decodes payload then
        ({ c with front := c.front.consume messageLen }, .ok (some payload))
      else
        -- fix F9: the undecodable frame is dropped so the stream can re-sync
        ({ c with front := c.front.consume messageLen }, .error .invalid)
    else tryReadTail c
  else tryReadTail c

/-- `read_message` in non-blocking mode -/
def readMessage (decodes : Bytes → Bool) (c : Chan) : Chan × Except Err Bytes :=
  match tryRead decodes c with
  | (c1, .ok (some m)) => ({ tryShrinkFront c1 with inR := true }, .ok m)
  | (c1, .ok none) => ({ c1 with inR := true }, .error .nothingRead)
  | (c1, .error e) => (c1, .error e)

end Chan

/- ------------------------------------------------------------ System -- -/

/-- bound on the bytes the peer lets sit in the reader's kernel queue -/
def rqCap : Nat := 131072

structure Sys where
  w : Chan
  r : Chan
  wire : Bytes := []
  rq : Bytes := []
  closed : Bool := false
deriving Repr, DecidableEq, Inhabited

inductive Op where
  | write (payload : Bytes)      -- writer: `write_message`
  | flush (sched : List Nat)     -- writer: `handle_events(WRITABLE); writable()`
  | raw (bytes : Bytes)          -- the peer forges bytes onto the wire
  | deliver (k : Nat)            -- the peer hands k wire bytes to the reader's socket
  | readable                     -- reader: `handle_events(READABLE); readable()`
  | read                         -- reader: `read_message()`
  | close                        -- the peer hangs up on the reader
  | extract                      -- reader glue: `handle_events(READABLE); extract_messages()`
  | drain (rounds : Nat)         -- a fair schedule: rounds of flush-all / deliver-all / readable / read-until-error
deriving Repr, DecidableEq, Inhabited

inductive Out where
  | unit
  | count (n : Nat)
  | msg (payload : Bytes)
  | msgs (payloads : List Bytes)
  | err (e : Err)
  | drained (payloads : List Bytes) (last : Err)
deriving Repr, DecidableEq, Inhabited

def Sys.new (bufferSize maxBufferSize : Nat) : Sys :=
  { w := Chan.new bufferSize maxBufferSize, r := Chan.new bufferSize maxBufferSize }

/-- `bin/src/command/sessions.rs::extract_messages`: call `readable`, then
    `read_message`; keep going while messages come or the buffer grew. -/
def extractLoop (decodes : Bytes → Bool) (closed : Bool) :
    Nat → Chan → Bytes → List Bytes → Chan × Bytes × List Bytes
  | 0, c, rq, acc => (c, rq, acc)
  | fuel + 1, c, rq, acc =>
    let (c1, rq1, _) := c.readable rq closed
    let oldCap := c1.front.cap
    match c1.readMessage decodes with
    | (c2, .ok m) => extractLoop decodes closed fuel c2 rq1 (acc ++ [m])
    | (c2, .error _) =>
      if oldCap = c2.front.cap then (c2, rq1, acc)
      else extractLoop decodes closed fuel c2 rq1 acc

/-- `read_message` until it returns an error (the caller's usual loop) -/
def readAll (decodes : Bytes → Bool) : Nat → Chan → List Bytes → Chan × List Bytes × Err
  | 0, c, acc => (c, acc, .nothingRead)
  | fuel + 1, c, acc =>
    match c.readMessage decodes with
    | (c1, .ok m) => readAll decodes fuel c1 (acc ++ [m])
    | (c1, .error e) => (c1, acc, e)

/-- bytes that have not reached the reader's front buffer yet -/
def Sys.pendingBytes (s : Sys) : Nat := s.w.back.data.length + s.wire.length + s.rq.length

def stepBase (decodes : Bytes → Bool) (s : Sys) : Op → Sys × Out
  | .write p =>
    match s.w.writeMessage p with
    | (w1, .ok ()) => ({ s with w := w1 }, .unit)
    | (w1, .error e) => ({ s with w := w1 }, .err e)
  | .flush sched =>
    match { s.w with rdW := true }.writable sched with
    | (w1, acc, .ok n) => ({ s with w := w1, wire := s.wire ++ acc }, .count n)
    | (w1, acc, .error e) => ({ s with w := w1, wire := s.wire ++ acc }, .err e)
  | .raw bs => ({ s with wire := s.wire ++ bs }, .count bs.length)
  | .deliver k =>
    let n := if s.closed then 0 else min (min k s.wire.length) (rqCap - s.rq.length)
    ({ s with wire := s.wire.drop n, rq := s.rq ++ s.wire.take n }, .count n)
  | .readable =>
    match { s.r with rdR := true }.readable s.rq s.closed with
    | (r1, rq1, .ok n) => ({ s with r := r1, rq := rq1 }, .count n)
    | (r1, rq1, .error e) => ({ s with r := r1, rq := rq1 }, .err e)
  | .read =>
    match s.r.readMessage decodes with
    | (r1, .ok m) => ({ s with r := r1 }, .msg m)
    | (r1, .error e) => ({ s with r := r1 }, .err e)
  | .close => ({ s with closed := true }, .unit)
  | .drain _ => (s, .unit)
  | .extract =>
    let (r1, rq1, ms) :=
      extractLoop decodes s.closed (s.rq.length + s.r.front.data.length + 80)
        { s.r with rdR := true } s.rq []
    ({ s with r := r1, rq := rq1 }, .msgs ms)

/-- one round of the fair schedule: the kernel accepts everything the writer
    has, the peer hands over everything (up to `rqCap`), the reader is told it
    is readable and reads messages until `read_message` errs. -/
def fairRound (decodes : Bytes → Bool) (s : Sys) : Sys × List Bytes × Err :=
  let s1 := (stepBase decodes s (.flush [usizeMax])).1
  let s2 := (stepBase decodes s1 (.deliver rqCap)).1
  let s3 := (stepBase decodes s2 .readable).1
  let (r1, ms, e) := readAll decodes (s3.r.front.data.length / delim + 2) s3.r []
  ({ s3 with r := r1 }, ms, e)

/-- repeat fair rounds until three consecutive rounds neither deliver a
    message nor move or consume a byte (or the round budget is spent). -/
def drainLoop (decodes : Bytes → Bool) :
    Nat → Nat → Sys → List Bytes → Err → Sys × List Bytes × Err
  | 0, _, s, acc, e => (s, acc, e)
  | fuel + 1, quiet, s, acc, _ =>
    let (s1, ms, e1) := fairRound decodes s
    if ms.isEmpty ∧ s1.pendingBytes = s.pendingBytes ∧ s1.r.front.data.length = s.r.front.data.length then
      if quiet + 1 ≥ 3 then (s1, acc, e1) else drainLoop decodes fuel (quiet + 1) s1 acc e1
    else drainLoop decodes fuel 0 s1 (acc ++ ms) e1

def step (decodes : Bytes → Bool) (s : Sys) : Op → Sys × Out
  | .drain rounds =>
    let (s1, ms, e) := drainLoop decodes rounds 0 s [] .nothingRead
    (s1, .drained ms e)
  | op => stepBase decodes s op

/-- run an op sequence, collecting the outputs -/
def run (decodes : Bytes → Bool) : Sys → List Op → Sys × List Out
  | s, [] => (s, [])
  | s, op :: ops =>
    let (s1, o) := step decodes s op
    let (s2, os) := run decodes s1 ops
    (s2, o :: os)

/- ------------------------------------------------------ blocking mode -- -/

/-- `read_message_blocking_timeout(Some(t))`: parse, else read what the kernel
    has into the free tail and parse again; an empty queue is a timeout (or
    `NoByteToRead` after a hang-up). No interest/readiness involved. -/
def breadLoop (decodes : Bytes → Bool) (closed : Bool) :
    Nat → Chan → Bytes → Chan × Bytes × Except Err Bytes
  | 0, c, rq => (c, rq, .error .timeout)
  | fuel + 1, c, rq =>
    match c.tryRead decodes with
    | (c1, .ok (some m)) => (c1.tryShrinkFront, rq, .ok m)
    | (c1, .error e) => (c1, rq, .error e)
    | (c1, .ok none) =>
      if rq.isEmpty then (c1, rq, .error (if closed then .noByteToRead else .timeout))
      else
        let n := min c1.front.availSpace rq.length
        if n = 0 then (c1, rq, .error .noByteToRead)
        else breadLoop decodes closed fuel { c1 with front := c1.front.fill (rq.take n) } (rq.drop n)

/-- the flush loop of `write_message_blocking` (after fix 02dfc8c): EINTR is
    retried (not an event of the schedule), a send timeout / would-block (the
    schedule is exhausted) ends it with `Err(Write)` and keeps the remainder in
    the back buffer; `true` = everything was handed to the kernel -/
def bwriteLoop : List Nat → Chan → Bytes → Chan × Bytes × Bool
  | sched, c, acc =>
    if c.back.availData = 0 then (c, acc, true)
    else
      match sched with
      | [] => (c, acc, false)
      | k :: rest =>
        if k = 0 then (c, acc, false)
        else
          let n := min k c.back.availData
          bwriteLoop rest { c with back := c.back.consume n } (acc ++ c.back.data.take n)

/-- ops of the extended system: the non-blocking ops plus the blocking calls -/
inductive XOp where
  | base (op : Op)
  | bread                                   -- reader: `read_message_blocking_timeout(Some(t))`
  | bwrite (payload : Bytes) (sched : List Nat)   -- writer: `write_message` in blocking mode
deriving Repr, DecidableEq, Inhabited

def xstep (decodes : Bytes → Bool) (s : Sys) : XOp → Sys × Out
  | .base op => step decodes s op
  | .bread =>
    match breadLoop decodes s.closed (s.rq.length + 66) s.r s.rq with
    | (r1, rq1, .ok m) => ({ s with r := r1, rq := rq1 }, .msg m)
    | (r1, rq1, .error e) => ({ s with r := r1, rq := rq1 }, .err e)
  | .bwrite p sched =>
    match s.w.writeDelimited p with
    | (w1, .error e) => ({ s with w := w1 }, .err e)
    | (w1, .ok ()) =>
      let r := bwriteLoop sched w1 []
      ({ s with w := r.1, wire := s.wire ++ r.2.1 }, if r.2.2 then .unit else .err .write)

def xrun (decodes : Bytes → Bool) : Sys → List XOp → Sys × List Out
  | s, [] => (s, [])
  | s, op :: ops =>
    let (s1, o) := xstep decodes s op
    let (s2, os) := xrun decodes s1 ops
    (s2, o :: os)

/- ------------------------------------------------ Buffer, directly -- -/

/-- the public `Buffer` operations `Channel` is built on, with arbitrary
    arguments (`Channel` only ever calls some of them under guards) -/
inductive BOp where
  | write (bytes : Bytes)     -- `io::Write::write`: copies min(len, space) bytes, `fill`
  | consume (n : Nat)
  | shift
  | grow (n : Nat)
  | shrink (n : Nat)
  | reset
  | read (n : Nat)            -- `io::Read::read` into an n-byte buffer: advances `position` only
deriving Repr, DecidableEq, Inhabited

def bstep (b : Buffer) : BOp → Buffer × Nat
  | .write bytes =>
    let n := min bytes.length b.availSpace
    (b.fill (bytes.take n), n)
  | .consume n => (b.consume n, min n b.availData)
  | .shift => (b.shift, 0)
  | .grow n => (b.grow n, if b.cap ≥ n then 0 else 1)
  | .shrink n =>
    (b.shrink n, if n ≥ b.cap then 0 else if b.shift.fin > n then 0 else 1)
  | .reset => ({ b with pos := 0, fin := 0, data := [] }, 0)
  | .read n =>
    let len := min b.availData n
    ({ b with pos := b.pos + len, data := b.data.drop len }, len)

def brun : Buffer → List BOp → Buffer × List Nat
  | b, [] => (b, [])
  | b, op :: ops =>
    let (b1, o) := bstep b op
    let (b2, os) := brun b1 ops
    (b2, o :: os)

/- ------------------------------------------------- worker-side spec -- -/

/-- Spec of the command channel's *user* (`lib/src/server.rs`: requests read
    from the channel, answers queued and flushed by `send_queue`): the final
    answers come back exactly once, in request order.  State = ids of the
    requests not answered yet, oldest first. -/
inductive WEv where
  | req (id : Nat)          -- the main process sent a request
  | read (k : Nat)          -- the main process reads until it has k final answers (or nothing more comes)
deriving Repr, DecidableEq, Inhabited

def wstep (q : List Nat) : WEv → List Nat × List Nat
  | .req i => (q ++ [i], [])
  | .read k => (q.drop k, q.take k)

def wrun : List Nat → List WEv → List Nat × List (List Nat)
  | q, [] => (q, [])
  | q, e :: es =>
    let (q1, o) := wstep q e
    let (q2, os) := wrun q1 es
    (q2, o :: os)

end Sozu.Channel
