import Sozu.Channel.Lemmas
/-
C11 — property theorems for the command channel (`Buffer` + `Channel`).
Only property statements (`C11_*`) and their non-vacuity `example`s live here.
`dec` is the prost parameter (`Rx::decode(payload).is_ok()`), schedules and
split points are the `flush` / `deliver` arguments of the op list.
-/
set_option linter.unusedVariables false
namespace Sozu.Channel
open Buffer

/-! ### memory bound -/

/-- For every configuration, decode oracle and op sequence (writes, flush
    schedules with partial accepts and would-block, forged bytes, deliveries of
    any size, reads, the `extract_messages` glue, fair drains, hang-up), each of
    the four buffers of the two endpoints stays within
    `max(buffer_size, max_buffer_size)`. -/
theorem C11_capacity_bounded (dec : Bytes → Bool) (bufferSize maxBufferSize : Nat) (ops : List Op) :
    let s := (run dec (Sys.new bufferSize maxBufferSize) ops).1
    s.w.front.cap ≤ max bufferSize maxBufferSize ∧ s.w.back.cap ≤ max bufferSize maxBufferSize ∧
    s.r.front.cap ≤ max bufferSize maxBufferSize ∧ s.r.back.cap ≤ max bufferSize maxBufferSize := by
  have h := run_sysStep dec (Sys.new bufferSize maxBufferSize) ops (sysWF_new _ _)
  have e1 : (Sys.new bufferSize maxBufferSize).w.max = max maxBufferSize bufferSize := rfl
  have e2 : (Sys.new bufferSize maxBufferSize).r.max = max maxBufferSize bufferSize := rfl
  have c1 : (Sys.new bufferSize maxBufferSize).w.front.cap = bufferSize := rfl
  have c2 : (Sys.new bufferSize maxBufferSize).w.back.cap = bufferSize := rfl
  have c3 : (Sys.new bufferSize maxBufferSize).r.front.cap = bufferSize := rfl
  have c4 : (Sys.new bufferSize maxBufferSize).r.back.cap = bufferSize := rfl
  have h1 := h.w.frontCap; have h2 := h.w.backCap; have h3 := h.r.frontCap; have h4 := h.r.backCap
  rw [e1, c1] at h1; rw [e1, c2] at h2; rw [e2, c3] at h3; rw [e2, c4] at h4
  refine ⟨?_, ?_, ?_, ?_⟩ <;> omega

-- the bound is reached: a 158-byte frame makes the reader's 100-byte buffer grow to the ceiling
example : (run (fun _ => true) (Sys.new 100 200)
    [.write (List.replicate 150 7), .flush [usizeMax], .deliver 158, .readable]).1.r.front.cap = 200 := by
  decide +kernel

-- regression (ceiling clamp in `Channel::new`): with buffer_size 200 > max_buffer_size 100 a
-- 150-byte frame accepted by the writer is delivered by the reader (it used to be refused for ever)
example : (run (fun _ => true) (Sys.new 200 100)
    [.write (List.replicate 142 7), .flush [usizeMax], .deliver 150, .readable, .read]).2
    = [.unit, .count 150, .count 150, .count 150, .msg (List.replicate 142 7)] := by
  decide +kernel

/-- No out-of-bounds access and no `usize` underflow: in every reachable state
    `position ≤ end ≤ capacity` and the data window is exactly `end - position`
    long, for all four buffers (so `memory[position..end]`, `memory[end..capacity]`,
    `end - position` and `capacity - end` are always defined). The slices taken
    by the frame parser are bounds-checked by construction (`slice` demands the
    proof that the code's guards provide). -/
theorem C11_offsets_in_bounds (dec : Bytes → Bool) (bufferSize maxBufferSize : Nat) (ops : List Op) :
    let s := (run dec (Sys.new bufferSize maxBufferSize) ops).1
    s.w.front.WF ∧ s.w.back.WF ∧ s.r.front.WF ∧ s.r.back.WF := by
  have h := (run_sysStep dec (Sys.new bufferSize maxBufferSize) ops (sysWF_new _ _)).wf (sysWF_new _ _)
  exact ⟨h.1.1, h.1.2, h.2.1, h.2.2⟩

example : (run (fun _ => true) (Sys.new 100 200)
    [.write (List.replicate 30 7), .flush [5, 0], .deliver 3, .readable, .read]).1.w.back.pos = 5 := by
  decide +kernel

/-! ### malformed frames are errors -/

/-- (after the F9/F10 fix) A declared length above the ceiling is `MessageTooLarge` (nothing is
    buffered or grown for it), a declared length under the prefix size is
    `MessageLengthUnderDelimiter` and costs exactly the 8 prefix bytes, a
    complete frame whose payload prost rejects is `InvalidProtobufMessage`:
    always an error value, for every reader state. -/
theorem C11_bad_prefix_is_error (dec : Bytes → Bool) (c : Chan) (h : ChanWF c)
    (h8 : delim ≤ c.front.data.length) :
    let len := decodeLE (c.front.data.take delim)
    (c.max < len → c.readMessage dec = (c, .error (.tooLarge len))) ∧
    (len ≤ c.max → len < delim →
      (c.readMessage dec).2 = .error (.under len) ∧
      (c.readMessage dec).1.front.data = c.front.data.drop delim) ∧
    (len ≤ c.max → delim ≤ len → len ≤ c.front.data.length →
      dec ((c.front.data.take len).drop delim) = false →
      (c.readMessage dec).2 = .error .invalid ∧
      (c.readMessage dec).1.front.data = c.front.data.drop len) := by
  obtain ⟨_, _, hd, hr, hc⟩ := readMessage_cases dec c h
  have hpair : c.readMessage dec = ((c.readMessage dec).1, (c.readMessage dec).2) := rfl
  simp only []
  refine ⟨?_, ?_, ?_⟩
  · intro hgt
    generalize hx : c.tryRead dec = x at hc
    cases hc with
    | tooLarge c' len _ hlen _ hsame =>
      have h1 : (c.readMessage dec).2 = .error (.tooLarge len) := by rw [hr, hx]; rfl
      have h2 : (c.readMessage dec).1 = c := by
        simp only [Chan.readMessage, hx]; exact hsame
      rw [hpair, h1, h2, hlen]
    | msg c' len _ hlen _ hmax => omega
    | under c' len _ hlen hlt hmax => omega
    | invalid c' len _ hlen _ hmax => omega
    | incomplete c' r hinc =>
      rcases hinc with hinc | ⟨a, _, _⟩ <;> omega
  · intro hle hlt
    generalize hx : c.tryRead dec = x at hc
    rw [hr, hd, hx]
    cases hc with
    | under c' len _ hlen _ _ hdata => exact ⟨by rw [hlen]; rfl, hdata⟩
    | tooLarge c' len _ hlen hgt => omega
    | msg c' len _ hlen hlo => omega
    | invalid c' len _ hlen hlo => omega
    | incomplete c' r hinc =>
      rcases hinc with hinc | ⟨_, a, _⟩ <;> omega
  · intro hle hlo hhi hdec
    generalize hx : c.tryRead dec = x at hc
    rw [hr, hd, hx]
    cases hc with
    | invalid c' len _ hlen _ _ _ _ hdata => exact ⟨rfl, by rw [hdata, hlen]⟩
    | msg c' len _ hlen _ _ _ hdec' =>
      subst hlen; rw [hdec] at hdec'; cases hdec'
    | under c' len _ hlen hlt => omega
    | tooLarge c' len _ hlen hgt => omega
    | incomplete c' r hinc =>
      rcases hinc with hinc | ⟨_, _, a⟩ <;> omega

-- the repository's own forged prefix (declared length 5)
example : (run (fun _ => true) (Sys.new 1000 10000)
    [.raw [5, 0, 0, 0, 0, 0, 0, 0], .deliver 8, .readable, .read]).2
    = [.count 8, .count 8, .count 8, .err (.under 5)] := by
  decide +kernel

/-! ### exactly once, intact, in order -/

/-- FIFO refinement. For every configuration and every op sequence over
    payloads that prost round-trips (`Good`) — any interleaving of
    `write_message`, flushes with any accept schedule (partial writes and
    would-block at any point), deliveries of any number of bytes (every split
    of the byte stream), `readable`, `read_message`, `extract_messages`, fair
    drains, hang-up — the messages handed to the reader's caller, followed by
    the messages still in flight, are exactly the messages whose
    `write_message` returned `Ok`, in order; and the bytes in flight are exactly
    the frames of the outstanding messages.  Hence nothing is lost,
    duplicated, corrupted or reordered, and the delivered sequence is a prefix
    of the written one at every moment. -/
theorem C11_fifo_refinement (dec : Bytes → Bool) (bufferSize maxBufferSize : Nat) (ops : List Op)
    (hraw : ∀ op ∈ ops, isRaw op = false) (hgood : ∀ p, Op.write p ∈ ops → Good dec p) :
    let res := run dec (Sys.new bufferSize maxBufferSize) ops
    ∃ pending, written ops res.2 = delivered res.2 ++ pending ∧
      res.1.stream = flat pending ∧ delivered res.2 <+: written ops res.2 := by
  obtain ⟨pend, hf, he⟩ := run_fifo dec (Sys.new bufferSize maxBufferSize) ops []
    (fifo_new dec _ _) hraw hgood
  simp only [List.nil_append] at he
  exact ⟨pend, he, hf.stream, ⟨pend, he.symm⟩⟩

-- two messages, the first delivered across a split, the second still in flight
def exampleOps : List Op :=
  [.write [1, 2, 3], .write [4, 5], .flush [usizeMax], .deliver 5, .readable, .read,
   .deliver 6, .readable, .read]

example : written exampleOps (run (fun _ => true) (Sys.new 100 200) exampleOps).2 = [[1, 2, 3], [4, 5]] ∧
    delivered (run (fun _ => true) (Sys.new 100 200) exampleOps).2 = [[1, 2, 3]] := by
  decide +kernel

/-- Equality under a fair schedule, reader side: once the schedule has moved
    every byte into the reader's front buffer, `read_message` called
    `pending.length` times returns exactly the outstanding messages, in order
    (each frame within the reader's ceiling). -/
theorem C11_fifo_refinement_drained (dec : Bytes → Bool) (c : Chan) (pending acc : List Bytes)
    (h : ChanWF c) (hs : c.front.data = flat pending)
    (hg : ∀ p ∈ pending, Good dec p ∧ p.length + delim ≤ c.max) :
    (readAll dec (pending.length + 1) c acc).2.1 = acc ++ pending := by
  induction pending generalizing c acc with
  | nil =>
    have := readAll_fifo dec 1 c acc [] [] h (by rw [List.append_nil]; exact hs) (by intro p hp; cases hp)
    obtain ⟨ms, pend', i1, i2, _⟩ := this
    have : ms = [] := by
      cases ms with
      | nil => rfl
      | cons _ _ => cases i2
    show (readAll dec 1 c acc).2.1 = acc ++ []
    rw [i1, this]
  | cons p rest ih =>
    rw [flat_cons] at hs
    have hgp := hg p (List.mem_cons_self ..)
    obtain ⟨h1, h2⟩ := read_complete dec c p (flat rest) h hs hgp.1 hgp.2
    obtain ⟨hstep, _, _⟩ := readMessage_cases dec c h
    show (readAll dec (rest.length + 1 + 1) c acc).2.1 = _
    unfold readAll
    rcases hr : c.readMessage dec with ⟨c1, r1⟩
    rw [hr] at h1 h2 hstep
    simp only at h1 h2 hstep
    subst h1
    simp only []
    rw [ih c1 (acc ++ [p]) (hstep.wf h) h2 (fun q hq => by
      rw [hstep.max_eq]; exact hg q (List.mem_cons_of_mem _ hq))]
    simp

example : (run (fun _ => true) (Sys.new 100 200)
    [.write [1, 2, 3], .write [4, 5], .drain 10]).2 = [.unit, .unit, .drained [[1, 2, 3], [4, 5]] .nothingRead] := by
  decide +kernel

/-! ### no wedge -/

/-- After a `MessageLengthUnderDelimiter` error the channel is not wedged:
    the bad prefix is gone and a complete well-formed frame that follows is
    returned by the very next `read_message`. (Of the error results of
    `read_message`, this is the only one after which the code lets the stream
    continue: see the three counterexamples below.) -/
theorem C11_no_wedge_partial (dec : Bytes → Bool) (c : Chan) (bad p R : Bytes) (h : ChanWF c)
    (hb : bad.length = delim) (hlt : decodeLE bad < delim) (hle : decodeLE bad ≤ c.max)
    (hs : c.front.data = bad ++ (frame p ++ R)) (hg : Good dec p) (hmax : p.length + delim ≤ c.max) :
    (c.readMessage dec).2 = .error (.under (decodeLE bad)) ∧
    ((c.readMessage dec).1.readMessage dec).2 = .ok p := by
  have h8 : delim ≤ c.front.data.length := by rw [hs, List.length_append]; omega
  have ht : c.front.data.take delim = bad := by
    rw [hs, List.take_append_of_le_length (by omega), List.take_of_length_le (by omega)]
  have hd : c.front.data.drop delim = frame p ++ R := by
    rw [hs, ← hb]; exact List.drop_left
  obtain ⟨_, hu, _⟩ := C11_bad_prefix_is_error dec c h h8
  simp only [ht] at hu
  obtain ⟨e1, e2⟩ := hu hle hlt
  obtain ⟨hstep, _, _⟩ := readMessage_cases dec c h
  refine ⟨e1, ?_⟩
  exact (read_complete dec _ p R (hstep.wf h) (by rw [e2, hd]) hg (by rw [hstep.max_eq]; exact hmax)).1

example : (run (fun _ => true) (Sys.new 100 200)
    [.raw ([5, 0, 0, 0, 0, 0, 0, 0] ++ frame [9, 9]), .deliver 18, .readable, .read, .read]).2
    = [.count 18, .count 18, .count 18, .err (.under 5), .msg [9, 9]] := by
  decide +kernel

/-- After `InvalidProtobufMessage` the channel is not wedged either (F9 fixed):
    the undecodable frame is gone and the next complete frame is returned. -/
theorem C11_no_wedge_undecodable (dec : Bytes → Bool) (c : Chan) (q p R : Bytes) (h : ChanWF c)
    (hq : dec q = false) (hql : q.length + delim ≤ usizeMax) (hqm : q.length + delim ≤ c.max)
    (hs : c.front.data = frame q ++ (frame p ++ R)) (hg : Good dec p) (hmax : p.length + delim ≤ c.max) :
    (c.readMessage dec).2 = .error .invalid ∧ ((c.readMessage dec).1.readMessage dec).2 = .ok p := by
  have hlen : q.length + delim ≤ c.front.data.length := by
    rw [hs, List.length_append, frame_length]; omega
  have h8 : delim ≤ c.front.data.length := by omega
  have hs' : c.front.data ++ [] = frame q ++ (frame p ++ R) := by rw [List.append_nil]; exact hs
  have hl := head_len' _ _ _ _ hs' h8 hql
  obtain ⟨ht, hdrop⟩ := head_complete _ _ _ _ hs' hlen
  rw [List.append_nil] at hdrop
  obtain ⟨_, _, hi⟩ := C11_bad_prefix_is_error dec c h h8
  simp only [hl] at hi
  obtain ⟨e1, e2⟩ := hi hqm (by omega) hlen (by rw [ht, frame_drop]; exact hq)
  obtain ⟨hstep, _, _⟩ := readMessage_cases dec c h
  refine ⟨e1, ?_⟩
  exact (read_complete dec _ p R (hstep.wf h) (by rw [e2, hdrop]) hg (by rw [hstep.max_eq]; exact hmax)).1

theorem C11_no_wedge_undecodable_witness :
    (run (fun p => p != List.replicate 10 255) (Sys.new 1000 2000)
      [.raw (frame (List.replicate 10 255)), .raw (frame [10, 1, 55, 18, 0]), .deliver 31, .readable,
       .read, .read, .drain 20]).2
    = [.count 18, .count 13, .count 31, .count 31, .err .invalid, .msg [10, 1, 55, 18, 0],
       .drained [] .nothingRead] := by
  decide +kernel

/-- `BufferFull` cannot happen on a well-formed stream whose head frame fits
    the ceiling (F10 fixed: the consumed prefix is shifted out before giving up). -/
theorem C11_no_wedge_bufferfull (dec : Bytes → Bool) (c : Chan) (T p R : Bytes)
    (h : ChanWF c) (hs : c.front.data ++ T = frame p ++ R)
    (hg : Good dec p) (hmax : p.length + delim ≤ c.max) :
    (c.readMessage dec).2 ≠ .error .bufferFull := by
  intro hr
  obtain ⟨hlen, hinc⟩ := bufferFull_shape dec c h hr
  rcases hinc with hinc | ⟨_, hinc⟩
  · simp only [delim] at *; omega
  · rw [head_len' _ _ _ _ hs (by simp only [delim] at *; omega) hg.2] at hinc
    omega

theorem C11_no_wedge_bufferfull_witness :
    (run (fun _ => true) (Sys.new 100 100)
      [.write (List.replicate 32 65), .flush [usizeMax], .write (List.replicate 62 66), .flush [usizeMax],
       .deliver 100, .readable, .read, .read, .deliver 10, .readable, .read, .drain 20]).2
    = [.unit, .count 40, .unit, .count 70, .count 100, .count 100, .msg (List.replicate 32 65),
       .err .nothingRead, .count 10, .count 10, .msg (List.replicate 62 66), .drained [] .nothingRead] := by
  decide +kernel

/-- A complete frame whose declared length exceeds the ceiling (201 > 200)
    followed by a good frame: `MessageTooLarge` for ever; the prefix is never
    consumed, the good frame is never delivered. -/
theorem C11_no_wedge_counterexample_oversize :
    (run (fun _ => true) (Sys.new 100 200)
      [.raw (frame (List.replicate 193 97)), .raw (frame [10, 1, 55, 18, 0]), .deliver 214, .readable,
       .read, .read, .drain 20]).2
    = [.count 201, .count 13, .count 214, .count 200, .err (.tooLarge 201), .err (.tooLarge 201),
       .drained [] (.tooLarge 201)] := by
  decide +kernel

/-- Regression for the repaired glue stall (class `extract-left-complete-frame`):
    `Channel::new(_, 64, 512)`, frames of 511 and 63 bytes, all 574 bytes in the
    socket: one `extract_messages` call now returns both messages and drains
    the socket (`read_message` takes the READABLE interest back and `readable()`
    reclaims consumed bytes before giving up). -/
theorem C11_extract_no_stall_witness :
    let res := run (fun _ => true) (Sys.new 64 512)
      [.write (List.replicate 503 120), .flush [usizeMax], .write (List.replicate 55 121),
       .flush [usizeMax], .deliver 574, .extract]
    res.2 = [.unit, .count 511, .unit, .count 63, .count 574,
      .msgs [List.replicate 503 120, List.replicate 55 121]] ∧ res.1.rq.length = 0 := by
  decide +kernel

/-! ### the channel's user (worker side): spec used by the `chanworker` run -/

def wreqs : List WEv → List Nat
  | [] => []
  | .req i :: es => i :: wreqs es
  | .read _ :: es => wreqs es

/-- The worker-side spec the `chanworker` run compares the real `Server`
    against: whatever the interleaving of request bursts and reads, the
    answers read so far followed by the unanswered ids are exactly the
    requests, in order (each answered exactly once, in request order). -/
theorem C11_worker_spec_fifo (q0 : List Nat) (evs : List WEv) :
    (wrun q0 evs).2.flatten ++ (wrun q0 evs).1 = q0 ++ wreqs evs := by
  induction evs generalizing q0 with
  | nil => simp [wrun, wreqs]
  | cons e es ih =>
    cases e with
    | req i =>
      have := ih (q0 ++ [i])
      simp only [wrun, wstep, wreqs, List.flatten_cons, List.nil_append] at this ⊢
      rw [this]; simp
    | read k =>
      have := ih (q0.drop k)
      simp only [wrun, wstep, wreqs, List.flatten_cons] at this ⊢
      rw [List.append_assoc, this, ← List.append_assoc, List.take_append_drop]

example : wrun [] [.req 1, .req 2, .read 1, .req 3, .read 5] = ([], [[], [], [1], [], [2, 3]]) := by
  decide

/-! ### writer side: when `write_message` refuses -/

/-- Characterisation of the writer, both directions, in every reachable state
    (any op sequence, forged bytes and hang-up included): `write_message`
    returns `Ok` exactly when the bytes already pending in the back buffer plus
    the new frame fit the ceiling `max(max_buffer_size, buffer_size)`, and it
    returns `MessageTooLarge` (back-pressure, nothing buffered) exactly when
    they do not. In particular a frame within the ceiling is never refused
    while nothing is pending, and no other error is possible. -/
theorem C11_write_refused_iff (dec : Bytes → Bool) (bufferSize maxBufferSize : Nat) (ops : List Op)
    (p : Bytes) :
    let w := (run dec (Sys.new bufferSize maxBufferSize) ops).1.w
    let ceiling := max maxBufferSize bufferSize
    ((w.writeMessage p).2 = .ok () ↔ w.back.data.length + (p.length + delim) ≤ ceiling) ∧
    ((w.writeMessage p).2 = .error (.tooLarge (p.length + delim)) ↔
      ceiling < w.back.data.length + (p.length + delim)) := by
  have hs := run_sysStep dec (Sys.new bufferSize maxBufferSize) ops (sysWF_new _ _)
  have hwf := hs.wf (sysWF_new _ _)
  have hmax : (run dec (Sys.new bufferSize maxBufferSize) ops).1.w.max = max maxBufferSize bufferSize :=
    hs.w.max_eq
  have hcap : (run dec (Sys.new bufferSize maxBufferSize) ops).1.w.back.cap ≤
      (run dec (Sys.new bufferSize maxBufferSize) ops).1.w.max := by
    have := hs.w.backCap
    have c2 : (Sys.new bufferSize maxBufferSize).w.back.cap = bufferSize := rfl
    have e1 : (Sys.new bufferSize maxBufferSize).w.max = max maxBufferSize bufferSize := rfl
    rw [hmax]; rw [c2, e1] at this; omega
  have := writeMessage_iff _ p hwf.1 hcap
  simp only []
  rw [hmax] at this
  exact this

-- back-pressure: 158 B pending + 108 B > 200 is refused, the same frame is accepted after a flush
example : (run (fun _ => true) (Sys.new 100 200)
    [.write (List.replicate 150 7), .write (List.replicate 100 8), .flush [usizeMax],
     .write (List.replicate 100 8)]).2 = [.unit, .err (.tooLarge 108), .count 158, .unit] := by
  decide +kernel

/-! ### equal under a fair schedule -/

/-- Delivery is complete under every fair schedule. `FairSchedule sched rounds`
    (explicit predicate): `sched` is `rounds` rounds in a row, each of which
    lets the kernel accept every pending byte of the writer, hands every wire
    byte to the reader's socket (up to the queue bound), tells the reader it is
    readable and calls `read_message` at least once. For every configuration
    (sizes are `usize`s), every decode oracle and every prior op sequence `ops`
    over round-tripping payloads - any messages of any size (a write that
    returned `Ok` has a frame within the ceiling by `C11_write_refused_iff`),
    any accept schedules, any split points, partial reads, `extract_messages`,
    drains - and every fair continuation `sched`:
    * at every moment the messages returned so far are a prefix of the messages
      whose `write_message` returned `Ok`;
    * once the number of rounds covers the work left (messages written + bytes
      not yet in the reader's buffer + 1), every message whose write returned
      `Ok` has been returned by `read_message`, exactly once, in order.
    Excluded input shapes: forged bytes on the wire (`isRaw`; a forged complete
    frame with declared length above the ceiling still wedges the reader:
    `C11_no_wedge_counterexample_oversize`, open finding) and hang-up. -/
theorem C11_delivery_complete (dec : Bytes → Bool) (bufferSize maxBufferSize : Nat)
    (hbs : bufferSize ≤ usizeMax) (hms : maxBufferSize ≤ usizeMax)
    (ops : List Op) (hraw : ∀ op ∈ ops, isRaw op = false) (hclose : Op.close ∉ ops)
    (hgood : ∀ p, Op.write p ∈ ops → Good dec p)
    (sched : List Op) (rounds : Nat) (hfair : FairSchedule sched rounds) :
    let r1 := run dec (Sys.new bufferSize maxBufferSize) ops
    let r2 := run dec r1.1 sched
    delivered r1.2 ++ delivered r2.2 <+: written ops r1.2 ∧
    ((written ops r1.2).length + r1.1.pendingBytes + 1 ≤ rounds →
      delivered r1.2 ++ delivered r2.2 = written ops r1.2) := by
  obtain ⟨pend, hreach, hw⟩ := run_reach dec (max maxBufferSize bufferSize) (Sys.new bufferSize maxBufferSize)
    ops [] (reach_new dec bufferSize maxBufferSize) hraw hclose hgood
  simp only [List.nil_append] at hw
  have hlive := reach_live dec _ _ pend hreach (by omega)
  obtain ⟨ks, hlen, hs⟩ := hfair
  subst hs
  obtain ⟨pend', _, he, _, hdone⟩ := live_rounds dec ks _ pend hlive
  simp only []
  refine ⟨⟨pend', ?_⟩, ?_⟩
  · rw [hw, he, List.append_assoc]
  · intro hle
    have hpl : pend.length ≤ (written ops (run dec (Sys.new bufferSize maxBufferSize) ops).2).length := by
      rw [hw]; simp
    have := hdone (by omega)
    subst this
    rw [hw, he, List.append_nil]

example : FairSchedule ((List.replicate 3 1).map fairRoundOps).flatten 3 := ⟨_, rfl, rfl⟩

-- the former F10 witness (100/100, frames of 40 and 70 bytes, 100 bytes at once), then 3 fair rounds
example : delivered (run (fun _ => true) (Sys.new 100 100)
    ([.write (List.replicate 32 65), .flush [usizeMax], .write (List.replicate 62 66), .flush [usizeMax],
      .deliver 100, .readable] ++ ((List.replicate 3 1).map fairRoundOps).flatten)).2
    = [List.replicate 32 65, List.replicate 62 66] := by
  decide +kernel

/-- No wedge, in one statement. Take any state whose buffers are in bounds
    (`SysWF`), writer armed and peer not hung up (`WOk`), ceilings coherent.
    Let `read_message` return any error `e` there (never a panic: the model's
    slices are guarded). If the bytes left in flight after that read are
    well-formed frames `pend` within the ceiling - which is what remains after
    `MessageLengthUnderDelimiter` (8 bytes dropped) and `InvalidProtobufMessage`
    (the bad frame dropped), and trivially after `NothingRead` / `BufferFull`;
    it cannot hold after `MessageTooLarge`, whose prefix stays: the excluded
    oversize case - then a subsequently written well-formed message `p` is
    accepted (when it fits beside the pending bytes) and every fair schedule
    with enough rounds returns exactly `pend ++ [p]`. -/
theorem C11_no_wedge (dec : Bytes → Bool) (s : Sys) (e : Err)
    (hwf : SysWF s) (hok : WOk s) (hcap : s.w.back.cap ≤ s.w.max) (hmax : s.r.max = s.w.max)
    (hM : s.w.max ≤ usizeMax)
    (hread : (stepBase dec s .read).2 = .err e)
    (pend : List Bytes) (hrest : (stepBase dec s .read).1.stream = flat pend)
    (hgood : ∀ q ∈ pend, Good dec q) (hfit : ∀ q ∈ pend, q.length + delim ≤ s.w.max)
    (p : Bytes) (hp : Good dec p)
    (hpfit : (stepBase dec s .read).1.w.back.data.length + (p.length + delim) ≤ s.w.max)
    (sched : List Op) (rounds : Nat) (hfair : FairSchedule sched rounds) :
    let s1 := (stepBase dec s .read).1
    let s2 := step dec s1 (.write p)
    s2.2 = .unit ∧
    (pend.length + 1 + s2.1.pendingBytes + 1 ≤ rounds →
      delivered (run dec s2.1 sched).2 = pend ++ [p]) := by
  have hs1 := stepBase_sysStep dec s .read hwf
  have hwf1 := hs1.wf hwf
  have hreach1 : Reach dec s.w.max (stepBase dec s .read).1 pend := by
    refine ⟨⟨hwf1, hrest, hgood⟩, hfit, stepBase_wok dec s .read hwf hok (by simp), hs1.w.max_eq,
      hs1.r.max_eq.trans hmax, ?_⟩
    have := hs1.w.backCap
    omega
  obtain ⟨pend', hreach2, he⟩ := step_reach dec s.w.max _ (.write p) pend hreach1 rfl (by simp)
    (by intro q hq; cases hq; exact hp)
  have hunit : (step dec (stepBase dec s .read).1 (.write p)).2 = .unit := by
    have hiff := (writeMessage_iff (stepBase dec s .read).1.w p hwf1.1
      (by rw [hreach1.wmax]; exact hreach1.wcap)).1
    have hokw := hiff.mpr (by rw [hreach1.wmax]; exact hpfit)
    have key : ∀ (x : Sys), (x.w.writeMessage p).2 = .ok () → (stepBase dec x (.write p)).2 = .unit := by
      intro x hx
      simp only [stepBase]
      rcases hr : x.w.writeMessage p with ⟨w1, r1⟩
      rw [hr] at hx
      simp only at hx
      subst hx
      rfl
    exact key _ hokw
  rw [hunit] at he
  simp only [writtenOf, deliveredOf, List.nil_append] at he
  subst he
  have hlive := reach_live dec _ _ _ hreach2 hM
  obtain ⟨ks, hlen, hsch⟩ := hfair
  subst hsch
  obtain ⟨pend'', _, he2, _, hdone⟩ := live_rounds dec ks _ _ hlive
  simp only []
  refine ⟨hunit, ?_⟩
  intro hle
  have := hdone (by simp only [List.length_append, List.length_singleton]; omega)
  subst this
  rw [he2, List.append_nil]

-- the hypotheses are satisfiable after a length-under-8 error ...
example : let s := (run (fun _ => true) (Sys.new 100 200)
      [.raw ([5, 0, 0, 0, 0, 0, 0, 0] ++ frame [9, 9]), .deliver 18, .readable]).1
    (stepBase (fun _ => true) s .read).2 = .err (.under 5) ∧
    (stepBase (fun _ => true) s .read).1.stream = flat [[9, 9]] := by
  decide +kernel

-- ... and after an undecodable frame (the former F9 witness)
example : let dec : Bytes → Bool := fun p => p != List.replicate 10 255
    let s := (run dec (Sys.new 1000 2000)
      [.raw (frame (List.replicate 10 255)), .raw (frame [10, 1, 55, 18, 0]), .deliver 31, .readable]).1
    (stepBase dec s .read).2 = .err .invalid ∧
    (stepBase dec s .read).1.stream = flat [[10, 1, 55, 18, 0]] := by
  decide +kernel

/-! ### blocking mode (`read_message_blocking_timeout`, `write_message` on a blocking channel) -/

/-- FIFO refinement with the blocking calls mixed in at any point: for every op
    sequence over the non-blocking ops, `read_message_blocking_timeout` (reads
    the socket itself, grows the buffer through the parser's tail, times out on
    an empty socket) and blocking `write_message` with any accept schedule,
    the messages returned so far followed by the messages in flight are
    exactly the messages whose write returned `Ok`, in order; the bytes in
    flight are exactly their frames. -/
theorem C11_blocking_fifo_refinement (dec : Bytes → Bool) (bufferSize maxBufferSize : Nat)
    (ops : List XOp) (hraw : ∀ op ∈ ops, xIsRaw op = false)
    (hgood : ∀ p, (XOp.base (.write p) ∈ ops ∨ ∃ sc, XOp.bwrite p sc ∈ ops) → Good dec p) :
    let res := xrun dec (Sys.new bufferSize maxBufferSize) ops
    ∃ pending, xwritten ops res.2 = delivered res.2 ++ pending ∧
      res.1.stream = flat pending ∧ delivered res.2 <+: xwritten ops res.2 := by
  obtain ⟨pend, hf, he⟩ := xrun_fifo dec (Sys.new bufferSize maxBufferSize) ops []
    (fifo_new dec _ _) hraw hgood
  simp only [List.nil_append] at he
  exact ⟨pend, he, hf.stream, ⟨pend, he.symm⟩⟩

-- a 158-byte frame written and read in blocking mode through a 100-byte buffer: the blocking
-- read grows the buffer through the parser's tail (no `readable()` involved)
example : (xrun (fun _ => true) (Sys.new 100 200)
    [.bwrite (List.replicate 150 7) [usizeMax], .base (.deliver 158), .bread, .bread]).2
    = [.unit, .count 158, .msg (List.replicate 150 7), .err .timeout] := by
  decide +kernel

/-- memory bound and offsets with the blocking calls mixed in -/
theorem C11_blocking_capacity_bounded (dec : Bytes → Bool) (bufferSize maxBufferSize : Nat)
    (ops : List XOp) :
    let s := (xrun dec (Sys.new bufferSize maxBufferSize) ops).1
    (s.w.front.cap ≤ max bufferSize maxBufferSize ∧ s.w.back.cap ≤ max bufferSize maxBufferSize ∧
      s.r.front.cap ≤ max bufferSize maxBufferSize ∧ s.r.back.cap ≤ max bufferSize maxBufferSize) ∧
    (s.w.front.WF ∧ s.w.back.WF ∧ s.r.front.WF ∧ s.r.back.WF) := by
  have h := xrun_sysStep dec (Sys.new bufferSize maxBufferSize) ops (sysWF_new _ _)
  have hw := h.wf (sysWF_new _ _)
  have e1 : (Sys.new bufferSize maxBufferSize).w.max = max maxBufferSize bufferSize := rfl
  have e2 : (Sys.new bufferSize maxBufferSize).r.max = max maxBufferSize bufferSize := rfl
  have c1 : (Sys.new bufferSize maxBufferSize).w.front.cap = bufferSize := rfl
  have c2 : (Sys.new bufferSize maxBufferSize).w.back.cap = bufferSize := rfl
  have c3 : (Sys.new bufferSize maxBufferSize).r.front.cap = bufferSize := rfl
  have c4 : (Sys.new bufferSize maxBufferSize).r.back.cap = bufferSize := rfl
  have h1 := h.w.frontCap; have h2 := h.w.backCap; have h3 := h.r.frontCap; have h4 := h.r.backCap
  rw [e1, c1] at h1; rw [e1, c2] at h2; rw [e2, c3] at h3; rw [e2, c4] at h4
  refine ⟨⟨?_, ?_, ?_, ?_⟩, hw.1.1, hw.1.2, hw.2.1, hw.2.2⟩ <;> omega

example : (xrun (fun _ => true) (Sys.new 100 200)
    [.bwrite (List.replicate 150 7) [usizeMax], .base (.deliver 158), .bread]).1.r.front.cap = 100 := by
  decide +kernel

/-- (after fix 02dfc8c) A blocking `write_message` answers `Ok` only when the
    whole frame - and everything that was pending before it - has been handed to
    the kernel: for every schedule of partial accepts, if the call returns `Ok`
    the writer's back buffer is empty. A send timeout is `Err(Write)` and keeps
    the remainder (it is accounted as accepted by `C11_blocking_fifo_refinement`:
    nothing is lost or duplicated, the next blocking write pushes it out). -/
theorem C11_blocking_write_flushes (dec : Bytes → Bool) (s : Sys) (p : Bytes) (sched : List Nat)
    (h : SysWF s) (hok : (xstep dec s (.bwrite p sched)).2 = .unit) :
    (xstep dec s (.bwrite p sched)).1.w.back.data = [] := by
  obtain ⟨hs, _, _⟩ := writeDelimited_spec s.w p h.1
  simp only [xstep] at hok ⊢
  rcases hr : s.w.writeDelimited p with ⟨w1, r1⟩
  rw [hr] at hs hok
  simp only at hs
  rcases r1 with e | u
  · simp at hok
  · cases u
    simp only at hok ⊢
    apply bwriteLoop_ok_empty sched w1 [] (hs.wf h.1)
    cases hb : (bwriteLoop sched w1 []).2.2
    · rw [hb] at hok; simp at hok
    · rfl

-- regression (former class `blocking-write-ok-with-unsent-remainder`): the kernel takes 7 of 99
-- bytes and then times out: the call now reports `Err(Write)`, the 92 bytes are kept, and the
-- next (complete) blocking write delivers both messages in order
example : (xrun (fun _ => true) (Sys.new 100 200)
      [.bwrite (List.replicate 91 120) [7], .bwrite [1, 2] [usizeMax], .base (.drain 20)]).2
    = [.err .write, .unit, .drained [List.replicate 91 120, [1, 2]] .nothingRead] := by
  decide +kernel

example : (xrun (fun _ => true) (Sys.new 100 100) [.bwrite (List.replicate 91 120) [7]]).1.w.back.data.length = 92 := by
  decide +kernel

/-! ### the `Buffer` API on its own -/

/-- For every capacity and every sequence of public `Buffer` operations with
    arbitrary arguments (`write`, `consume`, `shift`, `grow`, `shrink`, `reset`,
    `io::Read::read` - including the refusing branches of `grow` / `shrink`
    that `Channel` never reaches): offsets stay in bounds
    (`position ≤ end ≤ capacity`, no `usize` underflow) and every single
    operation treats the pending bytes as a FIFO (`write` appends what fits,
    `consume` / `read` drop from the front, `reset` clears, `shift` / `grow` /
    `shrink` keep them). -/
theorem C11_buffer_ops_in_bounds (c : Nat) (ops : List BOp) :
    (brun (Buffer.withCapacity c) ops).1.WF ∧
    ∀ (b : Buffer) (op : BOp), b.WF →
      (bstep b op).1.WF ∧ (bstep b op).1.data = bspecData b.data b.availSpace op := by
  refine ⟨?_, fun b op h => bstep_spec b op h⟩
  have key : ∀ (b : Buffer), b.WF → (brun b ops).1.WF := by
    induction ops with
    | nil => intro b h; exact h
    | cons op ops ih => intro b h; exact ih _ (bstep_spec b op h).1
  exact key _ (wf_withCapacity c)

example : (brun (Buffer.withCapacity 10)
    [.write [1, 2, 3, 4, 5, 6, 7, 8], .consume 2, .shrink 3, .grow 5, .read 3, .write [9, 9, 9, 9, 9, 9, 9, 9, 9]]).2
    = [8, 2, 0, 0, 3, 4] := by decide

end Sozu.Channel
