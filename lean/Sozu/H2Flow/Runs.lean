import Sozu.H2Flow.Lemmas
/-
Whole-run lemmas for the sender ledger: connections on which sozu opens no
stream itself (the frontend position), and runs under a fair credit schedule.
-/
set_option linter.unusedSimpArgs false
set_option linter.unusedVariables false
namespace Sozu.H2Flow
open Sozu

/-! ### the frontend position: every stream is opened by the peer -/

/-- no `start_stream`: the op sequence of a connection toward a client -/
def FrontOnly (ops : List Op) : Prop := ∀ o ∈ ops, ∀ w, o ≠ Op.openLocal w

theorem opensOk_of_frontOnly : ∀ (ops : List Op) (c : Conn), FrontOnly ops → OpensOk c ops := by
  intro ops
  induction ops with
  | nil => intro c _; trivial
  | cons o os ih =>
    intro c h
    refine ⟨?_, ih _ (fun o' ho' => h o' (List.mem_cons_of_mem _ ho'))⟩
    cases o with
    | openLocal w => exact absurd rfl (h _ (List.mem_cons_self ..) w)
    | _ => trivial

/-! ### ops that leave one stream's queue alone -/

/-- what may happen between two write passes of stream `sid`: anything the peer
    does to the windows and limits (WINDOW_UPDATE, SETTINGS deltas included),
    and pushes / write passes of the other streams -/
def Quiet (sid : Nat) : Op → Prop
  | .windowUpdate _ _ => True
  | .settingsInitWin _ => True
  | .settingsMfs _ => True
  | .settingsMaxStreams _ => True
  | .write s _ => s ≠ sid
  | .push s _ => s ≠ sid
  | _ => False

theorem find_map_sid (l : List Stream) (sid : Nat) (f : Stream → Stream) (hf : ∀ s, (f s).sid = s.sid) :
    (l.map f).find? (·.sid = sid) = (l.find? (·.sid = sid)).map f := by
  induction l with
  | nil => rfl
  | cons a t ih =>
    simp only [List.map_cons, List.find?_cons, hf]
    by_cases ha : a.sid = sid
    · simp [ha]
    · simp [ha, ih]

theorem find_filter_sid (l : List Stream) (sid s : Nat) (x : Stream)
    (h : (l.filter (·.sid ≠ s)).find? (·.sid = sid) = some x) : l.find? (·.sid = sid) = some x := by
  induction l with
  | nil => simp at h
  | cons a t ih =>
    simp only [List.filter_cons] at h
    by_cases ha : a.sid = s
    · simp only [ha, ne_eq, not_true_eq_false, decide_false, Bool.false_eq_true, if_false] at h
      have hx := ih h
      have hxs : x.sid = sid := by simpa using List.find?_some hx
      have hmem : x ∈ t.filter (·.sid ≠ s) := List.mem_of_find?_eq_some h
      have hne : x.sid ≠ s := by simpa using (List.mem_filter.mp hmem).2
      have : a.sid ≠ sid := by rw [ha]; intro e; exact hne (hxs.trans e.symm)
      simp [List.find?_cons, this, hx]
    · simp only [ne_eq, ha, not_false_eq_true, decide_true, if_true, List.find?_cons] at h ⊢
      by_cases hb : a.sid = sid
      · simpa [hb] using h
      · simp only [hb, decide_false] at h ⊢
        exact ih h

theorem find_map_k (l : List Stream) (sid : Nat) (g : Stream → Stream) (hs : ∀ s, (g s).sid = s.sid)
    (hk : ∀ s, s.sid = sid → (g s).k = s.k) (x : Stream)
    (h : (l.map g).find? (fun s => decide (s.sid = sid)) = some x) :
    ∃ y, l.find? (fun s => decide (s.sid = sid)) = some y ∧ x.k = y.k := by
  rw [find_map_sid l sid g hs] at h
  cases hf : l.find? (fun s => decide (s.sid = sid)) with
  | none => simp [hf] at h
  | some y =>
    simp only [hf, Option.map_some, Option.some.injEq] at h
    refine ⟨y, rfl, ?_⟩
    rw [← h]
    exact hk y (by simpa using List.find?_some hf)

theorem findStream_updStream_k (c : Conn) (s sid : Nat) (f : Stream → Stream) (hs : ∀ x, (f x).sid = x.sid)
    (hk : s = sid → ∀ x, (f x).k = x.k) (x : Stream) (h : findStream (updStream c s f) sid = some x) :
    ∃ y, findStream c sid = some y ∧ x.k = y.k := by
  unfold findStream updStream at h
  simp only at h
  unfold findStream
  refine find_map_k c.streams sid (fun s_1 => if s_1.sid = s then f s_1 else s_1) ?_ ?_ x h
  · intro s1; split
    · exact hs s1
    · rfl
  · intro s1 h1; split
    · next he => exact hk (he.symm.trans h1) s1
    · rfl

/-- a quiet op neither creates stream `sid` nor touches its queue -/
theorem quiet_k (c : Conn) (sid : Nat) (o : Op) (hq : Quiet sid o) (x : Stream)
    (h : findStream (step c o).1 sid = some x) : ∃ y, findStream c sid = some y ∧ x.k = y.k := by
  unfold step at h
  by_cases hd : c.dead
  · simp only [hd, if_true] at h; exact ⟨x, h, rfl⟩
  · simp only [hd, Bool.false_eq_true, if_false] at h
    cases o with
    | settingsInitWin v =>
      simp only [settingsInitWin] at h
      cases hu : updateInitialWindow c v with
      | none => simp only [hu] at h; exact ⟨x, h, rfl⟩
      | some c' =>
        simp only [hu] at h
        unfold updateInitialWindow at hu
        split at hu
        · cases hu
        · split at hu
          · injection hu with hu; subst hu
            unfold findStream at h
            simp only at h
            unfold findStream
            refine find_map_k c.streams sid _ ?_ ?_ x h <;> intros <;> rfl
          · cases hu
    | settingsMfs v =>
      simp only [settingsMfs] at h
      split at h <;> exact ⟨x, h, rfl⟩
    | settingsMaxStreams v => exact ⟨x, h, rfl⟩
    | windowUpdate s inc =>
      simp only [windowUpdate] at h
      split at h
      · split at h
        · exact ⟨x, h, rfl⟩
        · split at h
          · exact ⟨x, find_filter_sid _ _ _ _ h, rfl⟩
          · exact ⟨x, h, rfl⟩
      · split at h
        · split at h <;> exact ⟨x, h, rfl⟩
        · split at h
          · split at h
            · refine findStream_updStream_k c s sid _ ?_ ?_ x h <;> intros <;> rfl
            · exact ⟨x, find_filter_sid _ _ _ _ h, rfl⟩
          · exact ⟨x, h, rfl⟩
    | openPeer s => exact absurd hq (by simp [Quiet])
    | openLocal w => exact absurd hq (by simp [Quiet])
    | close s => exact absurd hq (by simp [Quiet])
    | push s b =>
      have hne : s ≠ sid := hq
      simp only at h
      refine findStream_updStream_k c s sid _ ?_ ?_ x h
      · intro _; rfl
      · intro e; exact absurd e hne
    | write s incr =>
      have hne : s ≠ sid := hq
      simp only at h
      cases hfs : findStream c s with
      | none => simp only [writeStream, hfs] at h; exact ⟨x, h, rfl⟩
      | some st =>
        rw [(writeStream_eq c s incr st hfs).2.1] at h
        have h' : findStream (updStream c s (fun s_1 => { s_1 with
              window := s_1.window - dataBytes (prepare (wsConv c st s incr) st.k).2.1,
              k := (prepare (wsConv c st s incr) st.k).2.2,
              sent := s_1.sent + dataBytes (prepare (wsConv c st s incr) st.k).2.1 })) sid = some x := h
        refine findStream_updStream_k c s sid _ ?_ ?_ x h'
        · intro _; rfl
        · intro e; exact absurd e hne

theorem run_cons (c : Conn) (o : Op) (os : List Op) : run c (o :: os) = run (step c o).1 os := rfl

theorem run_append (c : Conn) (a b : List Op) : run c (a ++ b) = run (run c a) b := by
  simp [run, List.foldl_append]

theorem quiet_k_run (sid : Nat) : ∀ (r : List Op) (c : Conn), (∀ o ∈ r, Quiet sid o) → ∀ x,
    findStream (run c r) sid = some x → ∃ y, findStream c sid = some y ∧ x.k = y.k := by
  intro r
  induction r with
  | nil => intro c _ x h; exact ⟨x, h, rfl⟩
  | cons o os ih =>
    intro c hq x h
    rw [run_cons] at h
    obtain ⟨y, hy, hk⟩ := ih _ (fun o' ho' => hq o' (List.mem_cons_of_mem _ ho')) x h
    obtain ⟨z, hz, hk'⟩ := quiet_k c sid o (hq o (List.mem_cons_self ..)) y hy
    exact ⟨z, hz, hk.trans hk'⟩

/-! ### runs under a fair credit schedule -/

/-- rounds of "quiet ops, then one non-incremental write pass of stream `sid`":
    final state and the frames written for the stream -/
def fairRun (c : Conn) (sid : Nat) : List (List Op) → Conn × List Frame
  | [] => (c, [])
  | r :: rs =>
    ((fairRun (writeStream (run c r) sid false).1 sid rs).1,
     (writeStream (run c r) sid false).2 ++ (fairRun (writeStream (run c r) sid false).1 sid rs).2)

/-- the schedule is fair to stream `sid`: between two of its passes only quiet
    ops happen, the connection stays up with a positive max frame size, the
    stream is still there, and *whenever body bytes are queued* the peer has
    left both windows positive by the time of the pass -/
def Fair (c : Conn) (sid : Nat) : List (List Op) → Prop
  | [] => True
  | r :: rs =>
    (∀ o ∈ r, Quiet sid o) ∧ (run c r).dead = false ∧ 0 < (run c r).peerMfs ∧
    (∃ st, findStream (run c r) sid = some st ∧
      (0 < bodyLen st.k.blocks → 0 < st.window ∧ 0 < (run c r).window)) ∧
    Fair (writeStream (run c r) sid false).1 sid rs

theorem findStream_after_write (c : Conn) (sid : Nat) (st : Stream) (h : findStream c sid = some st) :
    ∃ st2, findStream (writeStream c sid false).1 sid = some st2 ∧
      st2.k = (prepare (wsConv c st sid false) st.k).2.2 := by
  rw [(writeStream_eq c sid false st h).2.1]
  have hfu := findStream_updStream c sid (fun s => { s with
      window := s.window - dataBytes (prepare (wsConv c st sid false) st.k).2.1,
      k := (prepare (wsConv c st sid false) st.k).2.2,
      sent := s.sent + dataBytes (prepare (wsConv c st sid false) st.k).2.1 }) (fun _ => rfl)
  rw [h] at hfu
  exact ⟨_, hfu, rfl⟩

theorem fairRun_dead (sid : Nat) : ∀ (rounds : List (List Op)) (c : Conn) (st : Stream),
    Fair c sid rounds → findStream c sid = some st → st.k.dead = true →
    ∀ st', findStream (fairRun c sid rounds).1 sid = some st' → st'.k.dead = true := by
  intro rounds
  induction rounds with
  | nil =>
    intro c st _ hf hd st' h
    simp only [fairRun] at h
    rw [hf] at h; injection h with h; rw [← h]; exact hd
  | cons r rs ih =>
    intro c st hfair hf hd st' h
    obtain ⟨hq, _, _, ⟨st1, hst1, _⟩, hrest⟩ := hfair
    obtain ⟨y, hy, hk⟩ := quiet_k_run sid r c hq st1 hst1
    rw [hf] at hy; injection hy with hy; subst hy
    obtain ⟨st2, hst2, hk2⟩ := findStream_after_write (run c r) sid st1 hst1
    simp only [fairRun] at h
    refine ih _ st2 hrest hst2 ?_ st' h
    rw [hk2]
    exact prepare_dead _ _ (by rw [hk]; exact hd)

theorem progress_run (sid : Nat) : ∀ (rounds : List (List Op)) (c : Conn) (st : Stream),
    Fair c sid rounds → findStream c sid = some st → st.k.dead = false →
    ∀ st', findStream (fairRun c sid rounds).1 sid = some st' → st'.k.dead = false →
      events (fairRun c sid rounds).2 ++ eventsB st'.k.blocks = eventsB st.k.blocks ∧
      bodyLen st'.k.blocks ≤ bodyLen st.k.blocks - rounds.length := by
  intro rounds
  induction rounds with
  | nil =>
    intro c st _ hf hd st' h _
    simp only [fairRun] at h ⊢
    rw [hf] at h; injection h with h; subst h
    simp [events]
  | cons r rs ih =>
    intro c st hfair hf hd st' h hd'
    have hfair0 := hfair
    obtain ⟨hq, hdead, hmfs, ⟨st1, hst1, hpos⟩, hrest⟩ := hfair
    obtain ⟨y, hy, hk⟩ := quiet_k_run sid r c hq st1 hst1
    rw [hf] at hy; injection hy with hy; subst hy
    obtain ⟨st2, hst2, hk2⟩ := findStream_after_write (run c r) sid st1 hst1
    simp only [fairRun] at h ⊢
    have hd1 : st1.k.dead = false := by rw [hk]; exact hd
    have hd2 : st2.k.dead = false := by
      cases hx : st2.k.dead with
      | false => rfl
      | true => rw [fairRun_dead sid rs _ st2 hrest hst2 hx st' h] at hd'; cases hd'
    have hd2' : (prepare (wsConv (run c r) st1 sid false) st1.k).2.2.dead = false := by rw [← hk2]; exact hd2
    obtain ⟨ih1, ih2⟩ := ih _ st2 hrest hst2 hd2 st' h hd'
    have hev := prepare_events (wsConv (run c r) st1 sid false) st1.k hd1 hd2'
    obtain ⟨hx1, hx2⟩ := prepare_exact (wsConv (run c r) st1 sid false) st1.k hmfs rfl rfl hd1 hd2'
    rw [(writeStream_eq (run c r) sid false st1 hst1).1]
    refine ⟨?_, ?_⟩
    · rw [events_append, List.append_assoc, ih1, hk2, hev, hk]
    · rw [hk2] at ih2
      rw [← hk]
      simp only [List.length_cons]
      by_cases hb : 0 < bodyLen st1.k.blocks
      · obtain ⟨hw1, hw2⟩ := hpos hb
        have hwin : (wsConv (run c r) st1 sid false).window = min st1.window (run c r).window := rfl
        rw [hwin] at hx1
        omega
      · omega

/-- under `Fair` the rounds are an ordinary run of the connection -/
theorem fairRun_eq_run (sid : Nat) : ∀ (rounds : List (List Op)) (c : Conn), Fair c sid rounds →
    (fairRun c sid rounds).1 = run c (rounds.flatMap (· ++ [Op.write sid false])) := by
  intro rounds
  induction rounds with
  | nil => intro c _; rfl
  | cons r rs ih =>
    intro c hfair
    obtain ⟨_, hdead, _, _, hrest⟩ := hfair
    simp only [fairRun, List.flatMap_cons, run_append]
    rw [ih _ hrest]
    congr 1
    rw [run_cons, step_write _ _ _ hdead]
    rfl

end Sozu.H2Flow
