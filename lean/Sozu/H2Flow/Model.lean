import Sozu.Generated.Consts
/-
Model of sozu's HTTP/2 *sender-side* budgeting and flow-control ledger.

* `Conv`, `call`, `prepare` transcribe `H2BlockConverter` (lib/src/protocol/mux/converter.rs):
  the `Block::Chunk` arm (three branches: whole chunk / split to the budget /
  stall and push back), the `Block::Flags` arm (HEADERS, HEADERS+CONTINUATION
  split by `max_frame_size`, the empty END_STREAM DATA frame), the header arms
  (HPACK output is a *parameter*: the encoded bytes are an input of the model),
  the `MAX_HEADER_LIST_SIZE` abort, `initialize`/`finalize`, and `kawa.prepare`'s
  pop/call/break loop.
* `Conn`, `step` transcribe the parts of `ConnectionH2` (lib/src/protocol/mux/h2.rs)
  that move flow-control credit: `write_streams` budget `min(stream, conn)` and the
  `consumed` write-back, `handle_window_update_frame`, `update_initial_window_size`,
  SETTINGS_MAX_FRAME_SIZE / MAX_CONCURRENT_STREAMS, `create_stream`, `start_stream`,
  `next_stream_id`.
* `Recv` transcribes the receiver side: `handle_data_frame`'s connection threshold,
  per-stream immediate replenish and `queue_window_update` (coalescing, cap, drop).

`i32`/`u32` values are `Int`/`Nat`; the only places where machine width matters
(`checked_add`, `try_from(..).unwrap_or(i32::MAX)`, `saturating_add(..).min(..)`)
are transcribed with explicit bounds from `Sozu.Consts`. Fields named `sent`,
`credit`, `conn*`, `consumed*`, `announced*`, `lost*` are ghost state (no
counterpart in the code): they record what the *peer* granted and what was sent.
-/
namespace Sozu.H2Flow
open Sozu

abbrev Bytes := List Nat

structure Frame where
  ty : Nat
  flags : Nat
  sid : Nat
  payload : Bytes
deriving Repr, DecidableEq, Inhabited

def tyData : Nat := Consts.h2SerTypeByteData
def tyHeaders : Nat := Consts.h2SerTypeByteHeaders
def tyRst : Nat := Consts.h2SerTypeByteRstStream
def tyContinuation : Nat := Consts.h2SerTypeByteContinuation
def flES : Nat := Consts.h2FlagEndStream
def flEH : Nat := Consts.h2FlagEndHeaders
/-- `i32::MAX`, which is also `FLOW_CONTROL_MAX_WINDOW` -/
def i32Max : Nat := Consts.h2FlowControlMaxWindow

/-- the kawa blocks the converter distinguishes. `hdr enc`: a StatusLine /
    Header / Cookies block whose HPACK encoding is `enc` (`[]` = elided or
    filtered header: the arm returns before any output or capacity check). -/
inductive Block
  | chunk (d : Bytes)
  | flags (endHeader endStream : Bool)
  | hdr (enc : Bytes)
  | chunkHeader
deriving Repr, DecidableEq, Inhabited

structure Conv where
  mfs : Nat
  window : Int
  sid : Nat
  out : Bytes
  /-- `incremental_mode && incremental_peer_count > 1` -/
  incr : Bool
  /-- `pending_oversized_abort` -/
  abort : Bool
deriving Repr, DecidableEq

structure CallRes where
  conv : Conv
  frames : List Frame
  pushback : Option Block
  cont : Bool
deriving Repr

/-- `matches!(kawa.blocks.front(), Some(Block::Flags(Flags { end_stream: true, .. })))` -/
def nextCloses : List Block → Bool
  | .flags _ true :: _ => true
  | _ => false

def dataFrame (sid : Nat) (d : Bytes) : Frame := ⟨tyData, 0, sid, d⟩

/-- the `Block::Chunk` arm; `rest` = `kawa.blocks` after the pop. -/
def callChunk (c : Conv) (d : Bytes) (rest : List Block) : CallRes :=
  if (d.length : Int) ≤ c.window ∧ d.length ≤ c.mfs then
    { conv := { c with window := c.window - d.length }
      frames := [dataFrame c.sid d]
      pushback := none
      cont := !(c.incr && !(nextCloses rest)) }
  else if 0 < c.window then
    let k := min c.mfs c.window.toNat
    let after := d.drop k
    let pb : Option Block := if after.isEmpty then none else some (.chunk after)
    let rest' := match pb with
      | some b => b :: rest
      | none => rest
    { conv := { c with window := c.window - k }
      frames := [dataFrame c.sid (d.take k)]
      pushback := pb
      cont := decide (c.mfs < c.window.toNat) && !(c.incr && !(nextCloses rest')) }
  else
    { conv := c, frames := [], pushback := some (.chunk d), cont := false }

/-- `slice::chunks(n)` (fuel = length; `n = 0` panics in Rust and is not modelled) -/
def chunksGo (n : Nat) : Nat → Bytes → List Bytes
  | 0, _ => []
  | f + 1, l => if l.isEmpty then [] else l.take n :: chunksGo n f (l.drop n)

def chunksOf (n : Nat) (l : Bytes) : List Bytes := chunksGo n l.length l

def contFrames (sid : Nat) : List Bytes → List Frame
  | [] => []
  | [c] => [⟨tyContinuation, flEH, sid, c⟩]
  | c :: cs => ⟨tyContinuation, 0, sid, c⟩ :: contFrames sid cs

def headerFrames (sid : Nat) (es : Bool) : List Bytes → List Frame
  | [] => []
  | [c] => [⟨tyHeaders, (if es then flES else 0) ||| flEH, sid, c⟩]
  | c :: cs => ⟨tyHeaders, if es then flES else 0, sid, c⟩ :: contFrames sid cs

/-- the `Block::Flags` arm -/
def callFlags (c : Conv) (eh es : Bool) : CallRes :=
  let hf : List Frame × Bool × Bytes :=
    if eh then
      if c.out.isEmpty then ([], false, [])
      else if c.out.length ≤ c.mfs then
        ([⟨tyHeaders, flEH ||| (if es then flES else 0), c.sid, c.out⟩], true, [])
      else (headerFrames c.sid es (chunksOf c.mfs c.out), true, [])
    else ([], false, c.out)
  let tail : List Frame := if es && !hf.2.1 then [⟨tyData, flES, c.sid, []⟩] else []
  { conv := { c with out := hf.2.2 }, frames := hf.1 ++ tail, pushback := none, cont := true }

/-- StatusLine / Header / Cookies arms: append the HPACK bytes, then
    `check_header_capacity` -/
def callHdr (c : Conv) (enc : Bytes) : CallRes :=
  if enc.isEmpty then { conv := c, frames := [], pushback := none, cont := true }
  else if (c.out ++ enc).length > Consts.h2MaxHeaderListSize then
    { conv := { c with out := [], abort := true }, frames := [], pushback := none, cont := false }
  else { conv := { c with out := c.out ++ enc }, frames := [], pushback := none, cont := true }

def call (c : Conv) (b : Block) (rest : List Block) : CallRes :=
  match b with
  | .chunk d => callChunk c d rest
  | .flags eh es => callFlags c eh es
  | .hdr enc => callHdr c enc
  | .chunkHeader => { conv := c, frames := [], pushback := none, cont := true }

/-- what the converter sees of a stream's kawa: the block queue and whether
    `parsing_phase` is `Error` -/
structure KState where
  blocks : List Block
  dead : Bool
deriving Repr, DecidableEq, Inhabited

/-- `RST_STREAM(InternalError)` as emitted by `initialize` / `finalize` -/
def rstFrame (sid : Nat) : Frame := ⟨tyRst, 0, sid, [0, 0, 0, Consts.h2ErrInternalError]⟩

def pushFront (pb : Option Block) (rest : List Block) : List Block :=
  match pb with
  | some b => b :: rest
  | none => rest

/-- `while let Some(block) = blocks.pop_front() { if !call(..) { break } }` -/
def prepareLoop : Nat → Conv → List Block → List Frame → Conv × List Frame × List Block
  | 0, c, bs, acc => (c, acc, bs)
  | _ + 1, c, [], acc => (c, acc, [])
  | f + 1, c, b :: rest, acc =>
    let r := call c b rest
    if r.cont then prepareLoop f r.conv (pushFront r.pushback rest) (acc ++ r.frames)
    else (r.conv, acc ++ r.frames, pushFront r.pushback rest)

/-- enough iterations for every queue when `mfs > 0`: each iteration pops a
    block or strictly shortens the front chunk -/
def fuelOf : List Block → Nat
  | [] => 1
  | .chunk d :: bs => d.length + 2 + fuelOf bs
  | _ :: bs => 2 + fuelOf bs

/-- `finalize`: commit a header-budget abort (RST_STREAM now, stream dead,
    queue dropped) or just clear a dangling `out` -/
def finalize (sid : Nat) (r : Conv × List Frame × List Block) : Conv × List Frame × KState :=
  if r.1.abort then
    ({ r.1 with out := [], abort := false }, r.2.1 ++ [rstFrame sid], { blocks := [], dead := true })
  else
    ({ r.1 with out := [] }, r.2.1, { blocks := r.2.2, dead := false })

/-- `kawa.prepare(&mut converter)`: `initialize`, the loop, `finalize` -/
def prepare (c : Conv) (k : KState) : Conv × List Frame × KState :=
  if k.dead then
    -- `initialize` emits the RST; the first popped block makes `call` return false
    ({ c with out := [] }, [rstFrame c.sid], { k with blocks := k.blocks.drop 1 })
  else finalize c.sid (prepareLoop (fuelOf k.blocks) c k.blocks [])

/-- flow-controlled bytes carried by a frame list -/
def dataBytes (fs : List Frame) : Nat :=
  (fs.map fun f => if f.ty = tyData then f.payload.length else 0).sum

/-- what a peer observes of one frame on a stream: the body bytes in order
    (`some b`) and `none` for an END_STREAM flag -/
def frameEvents (f : Frame) : List (Option Nat) :=
  (if f.ty = tyData then f.payload.map some else []) ++
  (if (f.ty = tyData ∨ f.ty = tyHeaders) ∧ f.flags &&& flES ≠ 0 then [none] else [])

def events (fs : List Frame) : List (Option Nat) := fs.flatMap frameEvents

/-- the same observation on the block queue: chunk bytes and the closing flag -/
def blockEvents : Block → List (Option Nat)
  | .chunk d => d.map some
  | .flags _ true => [none]
  | _ => []

def eventsB (bs : List Block) : List (Option Nat) := bs.flatMap blockEvents

/-- body bytes still queued -/
def bodyLen : List Block → Nat
  | [] => 0
  | .chunk d :: bs => d.length + bodyLen bs
  | _ :: bs => bodyLen bs

/-- concatenated payloads of the header-block frames (HEADERS + CONTINUATION) -/
def headerBytes (fs : List Frame) : Bytes :=
  fs.flatMap fun f => if f.ty = tyHeaders ∨ f.ty = tyContinuation then f.payload else []

/-! ### the sender ledger (`ConnectionH2`) -/

inductive Err
  | goawayProtocol
  | goawayFlowControl
  | rstProtocol (sid : Nat)
  | rstFlowControl (sid : Nat)
deriving Repr, DecidableEq

structure Stream where
  sid : Nat
  window : Int
  k : KState
  /-- ghost: DATA payload bytes emitted on this stream -/
  sent : Nat
  /-- ghost: what the peer granted for this stream (its initial window when the
      stream opened + WINDOW_UPDATEs + SETTINGS deltas) -/
  credit : Int
deriving Repr, DecidableEq

structure Conn where
  isClient : Bool
  window : Int
  peerInitWin : Nat
  peerMfs : Nat
  peerMaxStreams : Nat
  lastStreamId : Nat
  streams : List Stream
  connSent : Nat
  connCredit : Int
  dead : Bool
deriving Repr

def Conn.new (isClient : Bool) : Conn :=
  { isClient
    window := Consts.h2DefaultInitialWindowSize
    peerInitWin := Consts.h2DefaultInitialWindowSize
    peerMfs := Consts.h2DefaultMaxFrameSize
    peerMaxStreams := Consts.h2DefaultMaxConcurrentStreams
    lastStreamId := 0
    streams := []
    connSent := 0
    connCredit := Consts.h2DefaultInitialWindowSize
    dead := false }

def findStream (c : Conn) (sid : Nat) : Option Stream := c.streams.find? (·.sid = sid)

def updStream (c : Conn) (sid : Nat) (f : Stream → Stream) : Conn :=
  { c with streams := c.streams.map fun s => if s.sid = sid then f s else s }

def removeStream (c : Conn) (sid : Nat) : Conn :=
  { c with streams := c.streams.filter (·.sid ≠ sid) }

/-- the id `next_stream_id` would issue: `next - 1` for a client, `next - 2`
    for a server, with `next = last + 2` -/
def issuedId (last : Nat) (isClient : Bool) : Nat := if isClient then last + 2 - 1 else last + 2 - 2

/-- `next_stream_id(last_stream_id, is_client)`: `(issued, next watermark)`;
    `none` on `checked_add(2)` overflow or when the id would leave the 31-bit space -/
def nextStreamId (last : Nat) (isClient : Bool) : Option (Nat × Nat) :=
  if last + 2 ≥ 2 ^ 32 then none
  else if issuedId last isClient > Consts.h2StreamIdMax then none
  else some (issuedId last isClient, last + 2)

/-- `i32::try_from(v).unwrap_or(i32::MAX)` -/
def clampI32 (v : Nat) : Int := if v ≤ i32Max then v else i32Max

/-- `handle_window_update_frame` (flood counters left out) -/
def windowUpdate (c : Conn) (sid inc : Nat) : Conn × Option Err :=
  if inc = 0 then
    if sid = 0 then ({ c with dead := true }, some .goawayProtocol)
    else match findStream c sid with
      | some _ => (removeStream c sid, some (.rstProtocol sid))
      | none => (c, none)
  else
    let i := clampI32 inc
    if sid = 0 then
      if c.window + i ≤ i32Max then
        ({ c with window := c.window + i, connCredit := c.connCredit + i }, none)
      else ({ c with dead := true }, some .goawayFlowControl)
    else match findStream c sid with
      | some st =>
        if st.window + i ≤ i32Max then
          (updStream c sid fun s => { s with window := s.window + i, credit := s.credit + i }, none)
        else (removeStream c sid, some (.rstFlowControl sid))
      | none => (c, none)

/-- `value as i64 - settings_initial_window_size as i64` -/
def initDelta (c : Conn) (v : Nat) : Int := (v : Int) - c.peerInitWin

/-- `update_initial_window_size`: `none` = the `return true` (error) paths. The
    loop stops at the first stream whose window would overflow; the connection
    is then closed by the caller, so the partially shifted windows are never
    used again (the model keeps the old ones). -/
def updateInitialWindow (c : Conn) (v : Nat) : Option Conn :=
  if v > i32Max then none
  else if c.streams.all (fun s => decide (s.window + initDelta c v ≤ i32Max)) then
    some { c with
      streams := c.streams.map fun s => { s with window := s.window + initDelta c v, credit := s.credit + initDelta c v }
      peerInitWin := v }
  else none

def settingsInitWin (c : Conn) (v : Nat) : Conn × Option Err :=
  match updateInitialWindow c v with
  | some c' => (c', none)
  | none => ({ c with dead := true }, some .goawayProtocol)

/-- SETTINGS_MAX_FRAME_SIZE: stored, then range-checked `[MIN, MAX)` -/
def settingsMfs (c : Conn) (v : Nat) : Conn × Option Err :=
  if Consts.h2MinMaxFrameSize ≤ v ∧ v < Consts.h2MaxMaxFrameSize then ({ c with peerMfs := v }, none)
  else ({ c with peerMfs := v, dead := true }, some .goawayProtocol)

/-- `create_stream` (peer-initiated stream; its send window starts at the
    peer's current SETTINGS_INITIAL_WINDOW_SIZE) -/
def openPeer (c : Conn) (sid : Nat) : Conn :=
  { c with
    streams := c.streams ++ [{ sid, window := clampI32 c.peerInitWin, k := ⟨[], false⟩, sent := 0, credit := c.peerInitWin }]
    lastStreamId := (sid + 2) / 2 * 2 }

/-- `start_stream` (locally-initiated stream toward a backend). `w0` is the
    `window` the `Stream` object was created with by the *frontend* side
    (`create_stream(.., 1 << 16)` for HTTP/1 frontends, the client's own initial
    window for HTTP/2 frontends): `start_stream` does not reset it. The ghost
    `credit` is what the backend really granted: its SETTINGS_INITIAL_WINDOW_SIZE. -/
def openLocal (c : Conn) (w0 : Nat) : Conn × Option Nat :=
  if c.streams.length ≥ c.peerMaxStreams then (c, none)
  else match nextStreamId c.lastStreamId c.isClient with
    | none => (c, none)
    | some (sid, next) =>
      ({ c with
          streams := c.streams ++ [{ sid, window := clampI32 w0, k := ⟨[], false⟩, sent := 0, credit := c.peerInitWin }]
          lastStreamId := next }, some sid)

/-- one iteration of the `write_streams` loop for stream `sid` -/
def writeStream (c : Conn) (sid : Nat) (incr : Bool) : Conn × List Frame :=
  match findStream c sid with
  | none => (c, [])
  | some st =>
    let w := min st.window c.window
    let r := prepare { mfs := c.peerMfs, window := w, sid := sid, out := [], incr := incr, abort := false } st.k
    let consumed := w - r.1.window
    let n := dataBytes r.2.1
    ({ updStream c sid (fun s => { s with window := s.window - consumed, k := r.2.2, sent := s.sent + n }) with
        window := c.window - consumed, connSent := c.connSent + n }, r.2.1)

inductive Op
  | settingsInitWin (v : Nat)
  | settingsMfs (v : Nat)
  | settingsMaxStreams (v : Nat)
  | windowUpdate (sid inc : Nat)
  | openPeer (sid : Nat)
  | openLocal (w0 : Nat)
  | push (sid : Nat) (b : Block)
  | write (sid : Nat) (incr : Bool)
  | close (sid : Nat)
deriving Repr, DecidableEq

inductive Out
  | ok
  | err (e : Err)
  | opened (sid : Nat)
  | refused
  | frames (fs : List Frame)
  | closed
deriving Repr, DecidableEq

def step (c : Conn) (op : Op) : Conn × Out :=
  if c.dead then (c, .closed) else
  match op with
  | .settingsInitWin v =>
    let r := settingsInitWin c v
    (r.1, match r.2 with | some e => .err e | none => .ok)
  | .settingsMfs v =>
    let r := settingsMfs c v
    (r.1, match r.2 with | some e => .err e | none => .ok)
  | .settingsMaxStreams v => ({ c with peerMaxStreams := v }, .ok)
  | .windowUpdate sid inc =>
    let r := windowUpdate c sid inc
    (r.1, match r.2 with | some e => .err e | none => .ok)
  | .openPeer sid => (openPeer c sid, .ok)
  | .openLocal w0 =>
    let r := openLocal c w0
    (r.1, match r.2 with | some sid => .opened sid | none => .refused)
  | .push sid b => (updStream c sid fun s => { s with k := { s.k with blocks := s.k.blocks ++ [b] } }, .ok)
  | .write sid incr =>
    let r := writeStream c sid incr
    (r.1, .frames r.2)
  | .close sid => (removeStream c sid, .ok)

def run (c : Conn) (ops : List Op) : Conn := ops.foldl (fun s o => (step s o).1) c

/-- states and outputs along a run -/
def trace : Conn → List Op → List (Conn × Op × Conn × Out)
  | _, [] => []
  | c, o :: os => let r := step c o; (c, o, r.1, r.2) :: trace r.1 os

/-! ### receiver side -/

structure Recv where
  /-- `connection_config.initial_connection_window` (clamped to `[65535, 2^31-1]`) -/
  icw : Nat
  /-- `max_pending_window_updates` = `1 + 4 * max_concurrent_streams` -/
  maxPending : Nat
  /-- `received_bytes_since_update` -/
  since : Nat
  /-- `pending_window_updates` -/
  pending : List (Nat × Nat)
  /-- ghost: flow-controlled bytes received on the connection -/
  consumed : Nat
  /-- ghost: connection-level increments already written to the wire -/
  announced : Nat
  /-- ghost: connection-level credit that was dropped or cut by saturation -/
  lost : Nat
deriving Repr, DecidableEq

def Recv.new (icw maxStreams : Nat) : Recv :=
  { icw, maxPending := 1 + maxStreams * 4, since := 0, pending := [], consumed := 0, announced := 0, lost := 0 }

/-- total increment queued for stream `k` -/
def sumK (l : List (Nat × Nat)) (k : Nat) : Nat := ((l.filter (·.1 = k)).map (·.2)).sum

def pendingOf (r : Recv) (sid : Nat) : Nat :=
  match r.pending.find? (·.1 = sid) with
  | some p => p.2
  | none => 0

/-- `queue_window_update`; the returned `Nat` is the credit lost by this call
    (saturation excess or a dropped entry) -/
def queueWu (r : Recv) (sid inc : Nat) : Recv × Nat :=
  match r.pending.find? (·.1 = sid) with
  | some p =>
    let v := min (p.2 + inc) i32Max
    ({ r with pending := r.pending.map fun q => if q.1 = sid then (q.1, v) else q }, p.2 + inc - v)
  | none =>
    if r.pending.length < r.maxPending then
      ({ r with pending := r.pending ++ [(sid, min inc i32Max)] }, inc - min inc i32Max)
    else (r, inc)

/-- the flow-control part of `handle_data_frame` for a DATA frame of wire length
    `len` on stream `sid` (`known`: the stream is still in `self.streams`) -/
def recvData (r : Recv) (sid len : Nat) (known endStream : Bool) : Recv :=
  let r1 := { r with since := r.since + len, consumed := r.consumed + len }
  let r2 :=
    if r1.since ≥ r1.icw / 2 then
      let q := queueWu r1 0 r1.since
      { q.1 with since := 0, lost := q.1.lost + q.2 }
    else r1
  if known && !endStream then (queueWu r2 sid len).1 else r2

/-- the WINDOW_UPDATE stage of `flush_pending_control_frames`: the entries named
    in `ids` fit the zero buffer and go to the wire, the others stay queued -/
def flushWu (r : Recv) (ids : List Nat) : Recv × List (Nat × Nat) :=
  let written := r.pending.filter fun p => ids.contains p.1
  ({ r with pending := r.pending.filter (fun p => !ids.contains p.1)
            announced := r.announced + sumK written 0 },
   written.filter (·.2 ≠ 0))

inductive ROp
  | data (sid len : Nat) (known endStream : Bool)
  | flush (ids : List Nat)
deriving Repr, DecidableEq

/-- stream 0 is never a key of `self.streams` (DATA on stream 0 is rejected by
    the frame parser before `handle_data_frame`) -/
def rstep (r : Recv) : ROp → Recv
  | .data sid len known es => recvData r sid len (known && sid != 0) es
  | .flush ids => (flushWu r ids).1

def rrun (r : Recv) (ops : List ROp) : Recv := ops.foldl rstep r

/-! ### HPACK dynamic-table-size signalling (RFC 7541 §4.2 / §6.3)

`ConnectionH2.pending_table_size_update` is set by the SETTINGS handler (the
encoder is resized at once); every write pass hands a *copy* to the converter,
which prepends the update to the first header block of the pass
(`emit_pending_size_update_if_new_block`); only when the converter reports
`size_update_emitted` does `write_streams` clear the connection-side mirror. -/

structure Hp where
  /-- `pending_table_size_update` -/
  pending : Option Nat
  /-- the encoder's table size (`encoder.set_max_table_size`) -/
  encSize : Nat
  /-- ghost: the size last announced on the wire, i.e. what the peer's decoder uses -/
  announced : Nat
deriving Repr, DecidableEq

def Hp.init : Hp := { pending := none, encSize := 4096, announced := 4096 }

inductive HpOp
  /-- peer SETTINGS_HEADER_TABLE_SIZE `v`, capped to `cap` -/
  | settings (v cap : Nat)
  /-- one write pass; `headers`: it contains at least one header block -/
  | pass (headers : Bool)
deriving Repr, DecidableEq

/-- `(state, size update written at the start of this pass's first header block)`.
    `keep = true` is the code (copy + clear on `size_update_emitted`);
    `keep = false` moves the signal into the converter (`take()`) without the
    post-pass bookkeeping. -/
def hpStep (keep : Bool) (h : Hp) : HpOp → Hp × Option Nat
  | .settings v cap => ({ h with pending := some (min v cap), encSize := min v cap }, none)
  | .pass headers =>
    match h.pending with
    | none => (h, none)
    | some v =>
      if headers then ({ h with pending := none, announced := v }, some v)
      else if keep then (h, none) else ({ h with pending := none }, none)

def hpRun (keep : Bool) (h : Hp) (ops : List HpOp) : Hp := ops.foldl (fun s o => (hpStep keep s o).1) h

end Sozu.H2Flow
