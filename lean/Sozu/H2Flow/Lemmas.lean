import Sozu.H2Flow.Model
/-
Helper lemmas for the H2Flow model: what one `call` / one `prepare` does to the
window, to frame sizes and to the observable event sequence.
-/
set_option linter.unusedSimpArgs false
set_option linter.unusedVariables false
namespace Sozu.H2Flow
open Sozu

/-! ### constants -/

theorem tyRst_ne_tyData : tyRst ≠ tyData := by decide
theorem tyHeaders_ne_tyData : tyHeaders ≠ tyData := by decide
theorem tyCont_ne_tyData : tyContinuation ≠ tyData := by decide
theorem tyCont_ne_tyHeaders : tyContinuation ≠ tyHeaders := by decide
theorem tyRst_ne_tyHeaders : tyRst ≠ tyHeaders := by decide

/-! ### dataBytes / events are additive -/

@[simp] theorem dataBytes_nil : dataBytes [] = 0 := rfl
@[simp] theorem dataBytes_append (a b : List Frame) : dataBytes (a ++ b) = dataBytes a + dataBytes b := by
  simp [dataBytes]
@[simp] theorem dataBytes_cons (f : Frame) (fs : List Frame) :
    dataBytes (f :: fs) = (if f.ty = tyData then f.payload.length else 0) + dataBytes fs := by
  simp [dataBytes]

@[simp] theorem events_nil : events [] = [] := rfl
@[simp] theorem events_append (a b : List Frame) : events (a ++ b) = events a ++ events b := by
  simp [events]
@[simp] theorem events_cons (f : Frame) (fs : List Frame) : events (f :: fs) = frameEvents f ++ events fs := by
  simp [events]
@[simp] theorem eventsB_nil : eventsB [] = [] := rfl
@[simp] theorem eventsB_cons (b : Block) (bs : List Block) : eventsB (b :: bs) = blockEvents b ++ eventsB bs := by
  simp [eventsB]

@[simp] theorem frameEvents_data (sid : Nat) (d : Bytes) : frameEvents (dataFrame sid d) = d.map some := by
  simp [frameEvents, dataFrame]

theorem pushFront_events (pb : Option Block) (rest : List Block) :
    eventsB (pushFront pb rest) = (match pb with | some b => blockEvents b | none => []) ++ eventsB rest := by
  cases pb <;> simp [pushFront]

/-! ### the Chunk arm -/

theorem callChunk_events (c : Conv) (d : Bytes) (rest : List Block) :
    events (callChunk c d rest).frames ++ eventsB (pushFront (callChunk c d rest).pushback rest)
      = eventsB (.chunk d :: rest) := by
  unfold callChunk
  split
  · simp [pushFront, blockEvents]
  · split
    · simp only [events_cons, events_nil, frameEvents_data, List.append_nil, eventsB_cons, blockEvents]
      by_cases h : (d.drop (min c.mfs c.window.toNat)).isEmpty
      · simp only [h, if_true, pushFront]
        have : d.take (min c.mfs c.window.toNat) = d := by
          have := List.take_append_drop (min c.mfs c.window.toNat) d
          rw [List.isEmpty_iff.mp h] at this; simpa using this
        rw [this]
      · have h' : (d.drop (min c.mfs c.window.toNat)).isEmpty = false := by simpa using h
        simp only [h', pushFront, eventsB_cons, blockEvents, Bool.false_eq_true, if_false]
        rw [← List.append_assoc, ← List.map_append, List.take_append_drop]
    · simp [pushFront, blockEvents]

theorem callChunk_window (c : Conv) (d : Bytes) (rest : List Block) :
    (callChunk c d rest).conv.window = c.window - dataBytes (callChunk c d rest).frames ∧
    (dataBytes (callChunk c d rest).frames : Int) ≤ max c.window 0 := by
  unfold callChunk
  split
  · next h => simp [dataFrame]; omega
  · split
    · next h1 h2 =>
      have hk : min c.mfs c.window.toNat ≤ d.length := by
        by_cases hw : (d.length : Int) ≤ c.window
        · have : ¬ d.length ≤ c.mfs := fun h => h1 ⟨hw, h⟩
          omega
        · omega
      simp [dataFrame, List.length_take, Nat.min_eq_left hk]
      omega
    · simp; omega

theorem callChunk_frame_size (c : Conv) (d : Bytes) (rest : List Block) :
    ∀ f ∈ (callChunk c d rest).frames, f.payload.length ≤ c.mfs := by
  unfold callChunk
  split
  · next h => simp [dataFrame]; exact h.2
  · split
    · simp [dataFrame, List.length_take]; omega
    · simp

theorem callChunk_params (c : Conv) (d : Bytes) (rest : List Block) :
    (callChunk c d rest).conv.mfs = c.mfs ∧ (callChunk c d rest).conv.sid = c.sid ∧
    (callChunk c d rest).conv.incr = c.incr ∧ (callChunk c d rest).conv.abort = c.abort ∧
    (callChunk c d rest).conv.out = c.out := by
  unfold callChunk; split <;> (try split) <;> simp

/-! ### `slice::chunks` and the header-block split -/

theorem chunksGo_len (n : Nat) : ∀ (f : Nat) (l : Bytes), ∀ x ∈ chunksGo n f l, x.length ≤ n := by
  intro f
  induction f with
  | zero => intro l x hx; simp [chunksGo] at hx
  | succ f ih =>
    intro l x hx
    unfold chunksGo at hx
    split at hx
    · simp at hx
    · rcases List.mem_cons.mp hx with h | h
      · subst h; simp [List.length_take]; omega
      · exact ih _ _ h

theorem chunksGo_flatten (n : Nat) (hn : 0 < n) :
    ∀ (f : Nat) (l : Bytes), l.length ≤ f → (chunksGo n f l).flatten = l := by
  intro f
  induction f with
  | zero => intro l hl; have : l = [] := List.length_eq_zero_iff.mp (by omega); subst this; simp [chunksGo]
  | succ f ih =>
    intro l hl
    unfold chunksGo
    split
    · next h => simp [List.isEmpty_iff.mp h]
    · next h =>
      have hne : l ≠ [] := by simpa using h
      have hpos : 0 < l.length := List.length_pos_iff.mpr hne
      have : (l.drop n).length ≤ f := by simp [List.length_drop]; omega
      simp [ih _ this]

theorem chunksOf_len (n : Nat) (l : Bytes) : ∀ x ∈ chunksOf n l, x.length ≤ n := chunksGo_len n _ l
theorem chunksOf_flatten (n : Nat) (hn : 0 < n) (l : Bytes) : (chunksOf n l).flatten = l :=
  chunksGo_flatten n hn _ l (Nat.le_refl _)
theorem chunksOf_ne_nil (n : Nat) (l : Bytes) (h : l ≠ []) : chunksOf n l ≠ [] := by
  unfold chunksOf
  have hpos : 0 < l.length := List.length_pos_iff.mpr h
  obtain ⟨f, hf⟩ : ∃ f, l.length = f + 1 := ⟨l.length - 1, by omega⟩
  rw [hf]; unfold chunksGo
  have : l.isEmpty = false := by simpa using h
  simp [this]

theorem contFrames_props (sid : Nat) : ∀ cs : List Bytes,
    dataBytes (contFrames sid cs) = 0 ∧ events (contFrames sid cs) = [] ∧
    headerBytes (contFrames sid cs) = cs.flatten ∧
    (∀ f ∈ contFrames sid cs, ∃ x ∈ cs, f.payload = x) ∧
    (∀ f ∈ contFrames sid cs, f.ty = tyContinuation ∧ f.sid = sid) := by
  intro cs
  induction cs with
  | nil => simp [contFrames, headerBytes]
  | cons c cs ih =>
    cases cs with
    | nil => simp [contFrames, headerBytes, frameEvents, tyCont_ne_tyData, tyCont_ne_tyHeaders]
    | cons c2 cs2 =>
      obtain ⟨h1, h2, h3, h4, h5⟩ := ih
      refine ⟨?_, ?_, ?_, ?_, ?_⟩
      · simp [contFrames, tyCont_ne_tyData] at h1 ⊢; exact h1
      · simp [contFrames, frameEvents, tyCont_ne_tyData, tyCont_ne_tyHeaders] at h2 ⊢; exact h2
      · simp only [contFrames, headerBytes, List.flatMap_cons, List.flatten_cons] at h3 ⊢
        simp [h3]
      · intro f hf
        simp only [contFrames, List.mem_cons] at hf
        rcases hf with rfl | hf
        · exact ⟨c, by simp, rfl⟩
        · obtain ⟨x, hx, e⟩ := h4 f (by simpa [contFrames] using hf)
          exact ⟨x, List.mem_cons_of_mem _ hx, e⟩
      · intro f hf
        simp only [contFrames, List.mem_cons] at hf
        rcases hf with rfl | hf
        · exact ⟨rfl, rfl⟩
        · exact h5 f (by simpa [contFrames] using hf)

theorem flES_and (es : Bool) : ((if es then flES else 0) &&& flES ≠ 0) ↔ es = true := by
  cases es <;> decide
theorem flEH_or_and (es : Bool) : ((flEH ||| (if es then flES else 0)) &&& flES ≠ 0) ↔ es = true := by
  cases es <;> decide
theorem flES_or_EH_and (es : Bool) : (((if es then flES else 0) ||| flEH) &&& flES ≠ 0) ↔ es = true := by
  cases es <;> decide

theorem headerFrames_props (sid : Nat) (es : Bool) : ∀ cs : List Bytes,
    dataBytes (headerFrames sid es cs) = 0 ∧
    events (headerFrames sid es cs) = (if es ∧ cs ≠ [] then [none] else []) ∧
    headerBytes (headerFrames sid es cs) = cs.flatten ∧
    (∀ f ∈ headerFrames sid es cs, ∃ x ∈ cs, f.payload = x) ∧
    (∀ f ∈ headerFrames sid es cs, (f.ty = tyHeaders ∨ f.ty = tyContinuation) ∧ f.sid = sid) := by
  intro cs
  cases cs with
  | nil => simp [headerFrames, headerBytes]
  | cons c cs =>
    cases cs with
    | nil =>
      refine ⟨by simp [headerFrames, tyHeaders_ne_tyData], ?_, by simp [headerFrames, headerBytes], by simp [headerFrames], by simp [headerFrames]⟩
      simp only [headerFrames, events_cons, events_nil, frameEvents, tyHeaders_ne_tyData, if_false, List.nil_append, List.append_nil]
      simp [flES_or_EH_and]
    | cons c2 cs2 =>
      obtain ⟨h1, h2, h3, h4, h5⟩ := contFrames_props sid (c2 :: cs2)
      refine ⟨?_, ?_, ?_, ?_, ?_⟩
      · simp [headerFrames, tyHeaders_ne_tyData, h1]
      · simp only [headerFrames, events_cons, h2, frameEvents, tyHeaders_ne_tyData, if_false, List.nil_append, List.append_nil]
        simp [flES_and]
      · simp only [headerFrames, headerBytes, List.flatMap_cons, List.flatten_cons] at h3 ⊢
        simp [h3]
      · intro f hf
        simp only [headerFrames, List.mem_cons] at hf
        rcases hf with rfl | hf
        · exact ⟨c, by simp, rfl⟩
        · obtain ⟨x, hx, e⟩ := h4 f hf
          exact ⟨x, List.mem_cons_of_mem _ hx, e⟩
      · intro f hf
        simp only [headerFrames, List.mem_cons] at hf
        rcases hf with rfl | hf
        · exact ⟨Or.inl rfl, rfl⟩
        · exact ⟨Or.inr (h5 f hf).1, (h5 f hf).2⟩


/-! ### the Flags arm -/

theorem callFlags_events (c : Conv) (eh es : Bool) :
    events (callFlags c eh es).frames = blockEvents (.flags eh es) := by
  unfold callFlags
  cases eh
  · cases es <;> simp [blockEvents, frameEvents] <;> decide
  · by_cases ho : c.out.isEmpty
    · cases es <;> simp [ho, blockEvents, frameEvents] <;> decide
    · by_cases hl : c.out.length ≤ c.mfs
      · cases es <;> simp [ho, hl, blockEvents, frameEvents, tyHeaders_ne_tyData] <;> decide
      · have hne : chunksOf c.mfs c.out ≠ [] := chunksOf_ne_nil _ _ (by simpa using ho)
        have h2 := (headerFrames_props c.sid es (chunksOf c.mfs c.out)).2.1
        cases es <;> simp [ho, hl, blockEvents, h2, hne]

theorem callFlags_window (c : Conv) (eh es : Bool) :
    (callFlags c eh es).conv.window = c.window ∧ dataBytes (callFlags c eh es).frames = 0 := by
  unfold callFlags
  refine ⟨rfl, ?_⟩
  cases eh
  · cases es <;> simp
  · by_cases ho : c.out.isEmpty
    · cases es <;> simp [ho]
    · by_cases hl : c.out.length ≤ c.mfs
      · cases es <;> simp [ho, hl, tyHeaders_ne_tyData]
      · have h1 := (headerFrames_props c.sid es (chunksOf c.mfs c.out)).1
        cases es <;> simp [ho, hl, h1]

theorem callFlags_frame_size (c : Conv) (eh es : Bool) :
    ∀ f ∈ (callFlags c eh es).frames, f.payload.length ≤ c.mfs := by
  unfold callFlags
  intro f hf
  cases eh
  · cases es <;> simp at hf; subst hf; simp
  · by_cases ho : c.out.isEmpty
    · cases es <;> simp [ho] at hf; subst hf; simp
    · by_cases hl : c.out.length ≤ c.mfs
      · cases es <;> simp [ho, hl] at hf <;> (subst hf; simpa using hl)
      · have h4 := (headerFrames_props c.sid es (chunksOf c.mfs c.out)).2.2.2.1
        have hf' : f ∈ headerFrames c.sid es (chunksOf c.mfs c.out) := by
          cases es <;> simpa [ho, hl] using hf
        obtain ⟨x, hx, e⟩ := h4 f hf'
        rw [e]; exact chunksOf_len _ _ x hx

/-- the header block reaches the wire complete and in order -/
theorem callFlags_header_bytes (c : Conv) (es : Bool) (hm : 0 < c.mfs) :
    headerBytes (callFlags c true es).frames = c.out := by
  unfold callFlags
  by_cases ho : c.out.isEmpty
  · have : c.out = [] := List.isEmpty_iff.mp ho
    cases es <;> simp [ho, this, headerBytes, tyHeaders_ne_tyData.symm, tyCont_ne_tyData.symm]
  · by_cases hl : c.out.length ≤ c.mfs
    · cases es <;> simp [ho, hl, headerBytes]
    · have h3 := (headerFrames_props c.sid es (chunksOf c.mfs c.out)).2.2.1
      simp only [headerBytes] at h3 ⊢
      cases es <;> simp [ho, hl, h3, chunksOf_flatten _ hm]

theorem callFlags_params (c : Conv) (eh es : Bool) :
    (callFlags c eh es).conv.mfs = c.mfs ∧ (callFlags c eh es).conv.sid = c.sid ∧
    (callFlags c eh es).conv.incr = c.incr ∧ (callFlags c eh es).conv.abort = c.abort ∧
    (callFlags c eh es).cont = true ∧ (callFlags c eh es).pushback = none := by
  unfold callFlags; simp

/-! ### any arm -/

theorem call_events (c : Conv) (b : Block) (rest : List Block) :
    events (call c b rest).frames ++ eventsB (pushFront (call c b rest).pushback rest) = eventsB (b :: rest) := by
  cases b with
  | chunk d => exact callChunk_events c d rest
  | flags eh es =>
    simp only [call, (callFlags_params c eh es).2.2.2.2.2, pushFront, eventsB_cons, callFlags_events]
  | hdr enc => simp only [call, callHdr]; split <;> (try split) <;> simp [pushFront, blockEvents]
  | chunkHeader => simp [call, pushFront, blockEvents]

theorem call_window (c : Conv) (b : Block) (rest : List Block) :
    (call c b rest).conv.window = c.window - dataBytes (call c b rest).frames ∧
    (dataBytes (call c b rest).frames : Int) ≤ max c.window 0 := by
  cases b with
  | chunk d => exact callChunk_window c d rest
  | flags eh es =>
    simp only [call, (callFlags_window c eh es).1, (callFlags_window c eh es).2]; omega
  | hdr enc => simp only [call, callHdr]; split <;> (try split) <;> simp <;> omega
  | chunkHeader => simp [call]; omega

theorem call_frame_size (c : Conv) (b : Block) (rest : List Block) :
    ∀ f ∈ (call c b rest).frames, f.payload.length ≤ c.mfs := by
  cases b with
  | chunk d => exact callChunk_frame_size c d rest
  | flags eh es => exact callFlags_frame_size c eh es
  | hdr enc => simp only [call, callHdr]; split <;> (try split) <;> simp
  | chunkHeader => simp [call]

theorem call_params (c : Conv) (b : Block) (rest : List Block) :
    (call c b rest).conv.mfs = c.mfs ∧ (call c b rest).conv.sid = c.sid ∧ (call c b rest).conv.incr = c.incr := by
  cases b with
  | chunk d => exact ⟨(callChunk_params c d rest).1, (callChunk_params c d rest).2.1, (callChunk_params c d rest).2.2.1⟩
  | flags eh es => exact ⟨(callFlags_params c eh es).1, (callFlags_params c eh es).2.1, (callFlags_params c eh es).2.2.1⟩
  | hdr enc => simp only [call, callHdr]; split <;> (try split) <;> simp
  | chunkHeader => simp [call]

theorem call_sid (c : Conv) (b : Block) (rest : List Block) :
    ∀ f ∈ (call c b rest).frames, f.sid = c.sid := by
  cases b with
  | chunk d => simp only [call, callChunk]; split <;> (try split) <;> simp [dataFrame]
  | flags eh es =>
    simp only [call, callFlags]
    intro f hf
    have h5 := (headerFrames_props c.sid es (chunksOf c.mfs c.out)).2.2.2.2
    simp only [List.mem_append] at hf
    rcases hf with hf | hf
    · cases eh
      · simp at hf
      · by_cases ho : c.out.isEmpty
        · simp [ho] at hf
        · by_cases hl : c.out.length ≤ c.mfs
          · simp [ho, hl] at hf; subst hf; rfl
          · simp [ho, hl] at hf; exact (h5 f hf).2
    · split at hf
      · simp at hf; rw [hf.2]
      · simp at hf; rw [hf.2]
  | hdr enc => simp only [call, callHdr]; split <;> (try split) <;> simp
  | chunkHeader => simp [call]


/-! ### the prepare loop -/

theorem prepareLoop_events : ∀ (f : Nat) (c : Conv) (bs : List Block) (acc : List Frame),
    events (prepareLoop f c bs acc).2.1 ++ eventsB (prepareLoop f c bs acc).2.2 = events acc ++ eventsB bs := by
  intro f
  induction f with
  | zero => intro c bs acc; simp [prepareLoop]
  | succ f ih =>
    intro c bs acc
    cases bs with
    | nil => simp [prepareLoop]
    | cons b rest =>
      have hc := call_events c b rest
      simp only [prepareLoop]
      split
      · rw [ih, events_append, List.append_assoc, hc]
      · simp only [events_append, List.append_assoc, hc]

theorem prepareLoop_window : ∀ (f : Nat) (c : Conv) (bs : List Block) (acc : List Frame),
    ∃ n : Nat, dataBytes (prepareLoop f c bs acc).2.1 = dataBytes acc + n ∧
      (prepareLoop f c bs acc).1.window = c.window - n ∧ (n : Int) ≤ max c.window 0 := by
  intro f
  induction f with
  | zero => intro c bs acc; exact ⟨0, by simp [prepareLoop], by simp [prepareLoop], by omega⟩
  | succ f ih =>
    intro c bs acc
    cases bs with
    | nil => exact ⟨0, by simp [prepareLoop], by simp [prepareLoop], by omega⟩
    | cons b rest =>
      obtain ⟨hw, hb⟩ := call_window c b rest
      simp only [prepareLoop]
      split
      · obtain ⟨n, h1, h2, h3⟩ := ih (call c b rest).conv (pushFront (call c b rest).pushback rest) (acc ++ (call c b rest).frames)
        refine ⟨dataBytes (call c b rest).frames + n, ?_, ?_, ?_⟩
        · rw [h1, dataBytes_append]; omega
        · rw [h2, hw]; push_cast; omega
        · rw [hw] at h3; push_cast; omega
      · exact ⟨dataBytes (call c b rest).frames, by simp, hw, hb⟩

theorem prepareLoop_params : ∀ (f : Nat) (c : Conv) (bs : List Block) (acc : List Frame),
    (prepareLoop f c bs acc).1.mfs = c.mfs ∧ (prepareLoop f c bs acc).1.sid = c.sid := by
  intro f
  induction f with
  | zero => intro c bs acc; simp [prepareLoop]
  | succ f ih =>
    intro c bs acc
    cases bs with
    | nil => simp [prepareLoop]
    | cons b rest =>
      have hp := call_params c b rest
      simp only [prepareLoop]
      split
      · rw [(ih _ _ _).1, (ih _ _ _).2, hp.1, hp.2.1]; exact ⟨rfl, rfl⟩
      · exact ⟨hp.1, hp.2.1⟩

theorem prepareLoop_frames (P : Frame → Prop) (m sid : Nat)
    (hcall : ∀ (c : Conv) (b : Block) (rest : List Block), c.mfs = m → c.sid = sid → ∀ x ∈ (call c b rest).frames, P x) :
    ∀ (f : Nat) (c : Conv) (bs : List Block) (acc : List Frame), c.mfs = m → c.sid = sid →
      (∀ x ∈ acc, P x) → ∀ x ∈ (prepareLoop f c bs acc).2.1, P x := by
  intro f
  induction f with
  | zero => intro c bs acc _ _ ha; simpa [prepareLoop] using ha
  | succ f ih =>
    intro c bs acc hm hs ha
    cases bs with
    | nil => simpa [prepareLoop] using ha
    | cons b rest =>
      have hp := call_params c b rest
      have hacc : ∀ x ∈ acc ++ (call c b rest).frames, P x := by
        intro x hx
        rcases List.mem_append.mp hx with h | h
        · exact ha x h
        · exact hcall c b rest hm hs x h
      simp only [prepareLoop]
      split
      · exact ih _ _ _ (hp.1.trans hm) (hp.2.1.trans hs) hacc
      · exact hacc

/-! ### one `prepare` -/

theorem prepare_window (c : Conv) (k : KState) :
    (prepare c k).1.window = c.window - dataBytes (prepare c k).2.1 ∧
    (dataBytes (prepare c k).2.1 : Int) ≤ max c.window 0 := by
  unfold prepare finalize
  split
  · simp [rstFrame, tyRst_ne_tyData]; omega
  · obtain ⟨n, h1, h2, h3⟩ := prepareLoop_window (fuelOf k.blocks) c k.blocks []
    simp only [dataBytes_nil, Nat.zero_add] at h1
    split
    · simp only [dataBytes_append, h1, dataBytes_cons, rstFrame, tyRst_ne_tyData, if_false, dataBytes_nil, h2]
      exact ⟨by omega, by omega⟩
    · simp only [h1, h2]; exact ⟨trivial, h3⟩

theorem prepare_frame_size (c : Conv) (k : KState) :
    ∀ f ∈ (prepare c k).2.1, f.ty ≠ tyRst → f.payload.length ≤ c.mfs := by
  have hl := prepareLoop_frames (fun x => x.payload.length ≤ c.mfs) c.mfs c.sid
    (fun c' b rest hm _ x hx => hm ▸ call_frame_size c' b rest x hx)
    (fuelOf k.blocks) c k.blocks [] rfl rfl (by simp)
  unfold prepare finalize
  intro f hf hne
  split at hf
  · simp at hf; subst hf; exact absurd rfl hne
  · split at hf
    · rcases List.mem_append.mp hf with h | h
      · exact hl f h
      · simp at h; subst h; exact absurd rfl hne
    · exact hl f hf

theorem prepare_sid (c : Conv) (k : KState) : ∀ f ∈ (prepare c k).2.1, f.sid = c.sid := by
  have hl := prepareLoop_frames (fun x => x.sid = c.sid) c.mfs c.sid
    (fun c' b rest _ hs x hx => hs ▸ call_sid c' b rest x hx)
    (fuelOf k.blocks) c k.blocks [] rfl rfl (by simp)
  unfold prepare finalize
  intro f hf
  split at hf
  · simp at hf; subst hf; rfl
  · split at hf
    · rcases List.mem_append.mp hf with h | h
      · exact hl f h
      · simp at h; subst h; rfl
    · exact hl f hf

/-- while the stream is not reset, one pass moves a prefix of the event
    sequence from the queue to the wire -/
theorem prepare_events (c : Conv) (k : KState) (hd : k.dead = false) (hd' : (prepare c k).2.2.dead = false) :
    events (prepare c k).2.1 ++ eventsB (prepare c k).2.2.blocks = eventsB k.blocks := by
  have hl := prepareLoop_events (fuelOf k.blocks) c k.blocks []
  unfold prepare finalize at hd' ⊢
  simp only [hd, Bool.false_eq_true, if_false] at hd' ⊢
  split
  · next h => simp [h] at hd'
  · simpa using hl


/-! ### exact budget use (progress) -/

@[simp] theorem bodyLen_chunk (d : Bytes) (bs : List Block) : bodyLen (.chunk d :: bs) = d.length + bodyLen bs := rfl
@[simp] theorem bodyLen_flags (a b : Bool) (bs : List Block) : bodyLen (.flags a b :: bs) = bodyLen bs := rfl
@[simp] theorem bodyLen_hdr (e : Bytes) (bs : List Block) : bodyLen (.hdr e :: bs) = bodyLen bs := rfl
@[simp] theorem bodyLen_chunkHeader (bs : List Block) : bodyLen (.chunkHeader :: bs) = bodyLen bs := rfl
@[simp] theorem fuelOf_chunk (d : Bytes) (bs : List Block) : fuelOf (.chunk d :: bs) = d.length + 2 + fuelOf bs := rfl
@[simp] theorem fuelOf_flags (a b : Bool) (bs : List Block) : fuelOf (.flags a b :: bs) = 2 + fuelOf bs := rfl
@[simp] theorem fuelOf_hdr (e : Bytes) (bs : List Block) : fuelOf (.hdr e :: bs) = 2 + fuelOf bs := rfl
@[simp] theorem fuelOf_chunkHeader (bs : List Block) : fuelOf (.chunkHeader :: bs) = 2 + fuelOf bs := rfl
theorem fuelOf_pos (bs : List Block) : 0 < fuelOf bs := by
  cases bs with
  | nil => simp [fuelOf]
  | cons b bs => cases b <;> simp <;> omega

/-- bytes are conserved by one call: what is not emitted is still queued -/
theorem call_bodyLen (c : Conv) (b : Block) (rest : List Block) :
    dataBytes (call c b rest).frames + bodyLen (pushFront (call c b rest).pushback rest) = bodyLen (b :: rest) := by
  cases b with
  | chunk d =>
    simp only [call, callChunk]
    split
    · simp [pushFront, dataFrame]
    · split
      · next h1 h2 =>
        have hk : min c.mfs c.window.toNat ≤ d.length := by
          by_cases hw : (d.length : Int) ≤ c.window
          · have : ¬ d.length ≤ c.mfs := fun h => h1 ⟨hw, h⟩
            omega
          · omega
        by_cases he : (d.drop (min c.mfs c.window.toNat)).isEmpty
        · have hl : (d.drop (min c.mfs c.window.toNat)).length = 0 := by simp [List.isEmpty_iff.mp he]
          simp only [List.length_drop] at hl
          simp [he, pushFront, dataFrame, List.length_take]; omega
        · have he' : (d.drop (min c.mfs c.window.toNat)).isEmpty = false := by simpa using he
          simp [he', pushFront, dataFrame, List.length_take, List.length_drop]; omega
      · simp [pushFront]
  | flags eh es =>
    simp only [call, (callFlags_params c eh es).2.2.2.2.2, (callFlags_window c eh es).2, pushFront]; simp
  | hdr enc => simp only [call, callHdr]; split <;> (try split) <;> simp [pushFront]
  | chunkHeader => simp [call, pushFront]

theorem call_exact (c : Conv) (b : Block) (rest : List Block) (hm : 0 < c.mfs) (hi : c.incr = false) :
    ((call c b rest).cont = true →
        (call c b rest).conv.abort = c.abort ∧
        fuelOf (pushFront (call c b rest).pushback rest) < fuelOf (b :: rest) ∧
        dataBytes (call c b rest).frames +
            min (call c b rest).conv.window.toNat (bodyLen (pushFront (call c b rest).pushback rest))
          = min c.window.toNat (bodyLen (b :: rest))) ∧
    ((call c b rest).cont = false →
        (call c b rest).conv.abort = true ∨
        dataBytes (call c b rest).frames = min c.window.toNat (bodyLen (b :: rest))) := by
  cases b with
  | chunk d =>
    simp only [call, callChunk, hi]
    split
    · next h => simp [pushFront, dataFrame]; omega
    · split
      · next h1 h2 =>
        have hk : min c.mfs c.window.toNat < d.length := by
          by_cases hw : (d.length : Int) ≤ c.window
          · have : ¬ d.length ≤ c.mfs := fun h => h1 ⟨hw, h⟩
            omega
          · omega
        have he' : (d.drop (min c.mfs c.window.toNat)).isEmpty = false := by
          have : 0 < (d.drop (min c.mfs c.window.toNat)).length := by simp [List.length_drop]; omega
          cases hd : d.drop (min c.mfs c.window.toNat) with
          | nil => simp [hd] at this
          | cons _ _ => rfl
        simp only [he', Bool.false_eq_true, if_false, pushFront, Bool.false_and, Bool.not_false, Bool.and_true,
          decide_eq_true_eq, decide_eq_false_iff_not]
        refine ⟨fun hlt => ⟨trivial, ?_, ?_⟩, fun hge => Or.inr ?_⟩
        · simp [List.length_drop]; omega
        · simp [dataFrame, List.length_take, List.length_drop]; omega
        · simp [dataFrame, List.length_take]; omega
      · next h1 h2 => simp [pushFront]; omega
  | flags eh es =>
    have hp := callFlags_params c eh es
    have hw := callFlags_window c eh es
    simp only [call, hp.2.2.2.2.1, hp.2.2.2.2.2, hp.2.2.2.1, hw.1, hw.2, pushFront]
    simp
  | hdr enc =>
    simp only [call, callHdr]
    split
    · simp [pushFront]
    · split <;> simp [pushFront]
  | chunkHeader => simp [call, pushFront]

theorem prepareLoop_bodyLen : ∀ (f : Nat) (c : Conv) (bs : List Block) (acc : List Frame),
    dataBytes (prepareLoop f c bs acc).2.1 + bodyLen (prepareLoop f c bs acc).2.2 = dataBytes acc + bodyLen bs := by
  intro f
  induction f with
  | zero => intro c bs acc; simp [prepareLoop]
  | succ f ih =>
    intro c bs acc
    cases bs with
    | nil => simp [prepareLoop]
    | cons b rest =>
      have hc := call_bodyLen c b rest
      simp only [prepareLoop]
      split
      · rw [ih, dataBytes_append]; omega
      · simp only [dataBytes_append]; omega

theorem prepareLoop_exact : ∀ (f : Nat) (c : Conv) (bs : List Block) (acc : List Frame),
    0 < c.mfs → c.incr = false → c.abort = false → fuelOf bs ≤ f →
    (prepareLoop f c bs acc).1.abort = false →
    dataBytes (prepareLoop f c bs acc).2.1 = dataBytes acc + min c.window.toNat (bodyLen bs) := by
  intro f
  induction f with
  | zero => intro c bs acc _ _ _ hf; have := fuelOf_pos bs; omega
  | succ f ih =>
    intro c bs acc hm hi ha hf hres
    cases bs with
    | nil => simp [prepareLoop, bodyLen]
    | cons b rest =>
      obtain ⟨h1, h2⟩ := call_exact c b rest hm hi
      have hp := call_params c b rest
      simp only [prepareLoop] at hres ⊢
      split
      · next hc =>
        simp only [hc, if_true] at hres
        obtain ⟨ha', hfu, hd⟩ := h1 hc
        rw [ih _ _ _ (hp.1 ▸ hm) (hp.2.2.trans hi) (ha'.trans ha) (by omega) hres, dataBytes_append]
        omega
      · next hc =>
        have hc' : (call c b rest).cont = false := by simpa using hc
        simp only [hc', Bool.false_eq_true, if_false] at hres
        rcases h2 hc' with h | h
        · rw [h] at hres; cases hres
        · rw [dataBytes_append, h]


theorem call_fuel (c : Conv) (b : Block) (rest : List Block) :
    fuelOf (pushFront (call c b rest).pushback rest) ≤ fuelOf (b :: rest) ∧
    (0 < c.mfs → 0 < c.window → fuelOf (pushFront (call c b rest).pushback rest) < fuelOf (b :: rest)) := by
  cases b with
  | chunk d =>
    simp only [call, callChunk]
    split
    · simp [pushFront]
    · split
      · next h1 h2 =>
        by_cases he : (d.drop (min c.mfs c.window.toNat)).isEmpty
        · simp [he, pushFront]
        · have he' : (d.drop (min c.mfs c.window.toNat)).isEmpty = false := by simpa using he
          simp only [he', Bool.false_eq_true, if_false, pushFront, fuelOf_chunk, List.length_drop]
          exact ⟨by omega, fun hm hw => by omega⟩
      · next h1 h2 => simp only [pushFront]; exact ⟨Nat.le_refl _, fun _ hw => absurd hw h2⟩
  | flags eh es =>
    simp only [call, (callFlags_params c eh es).2.2.2.2.2, pushFront, fuelOf_flags]; omega
  | hdr enc => simp only [call, callHdr]; split <;> (try split) <;> simp [pushFront] <;> omega
  | chunkHeader => simp [call, pushFront]

theorem prepareLoop_fuel_le : ∀ (f : Nat) (c : Conv) (bs : List Block) (acc : List Frame),
    fuelOf (prepareLoop f c bs acc).2.2 ≤ fuelOf bs := by
  intro f
  induction f with
  | zero => intro c bs acc; simp [prepareLoop]
  | succ f ih =>
    intro c bs acc
    cases bs with
    | nil => simp [prepareLoop]
    | cons b rest =>
      have h := (call_fuel c b rest).1
      simp only [prepareLoop]
      split
      · exact Nat.le_trans (ih _ _ _) h
      · exact h

/-- a pass that starts with a positive budget on a non-empty queue shortens the queue -/
theorem prepareLoop_fuel_lt (f : Nat) (c : Conv) (bs : List Block) (acc : List Frame)
    (hm : 0 < c.mfs) (hw : 0 < c.window) (hne : bs ≠ []) :
    fuelOf (prepareLoop (f + 1) c bs acc).2.2 < fuelOf bs := by
  cases bs with
  | nil => exact absurd rfl hne
  | cons b rest =>
    have h := (call_fuel c b rest).2 hm hw
    simp only [prepareLoop]
    split
    · exact Nat.lt_of_le_of_lt (prepareLoop_fuel_le _ _ _ _) h
    · exact h

theorem prepare_exact (c : Conv) (k : KState) (hm : 0 < c.mfs) (hi : c.incr = false) (ha : c.abort = false)
    (hd : k.dead = false) (hd' : (prepare c k).2.2.dead = false) :
    dataBytes (prepare c k).2.1 = min c.window.toNat (bodyLen k.blocks) ∧
    dataBytes (prepare c k).2.1 + bodyLen (prepare c k).2.2.blocks = bodyLen k.blocks := by
  have hb := prepareLoop_bodyLen (fuelOf k.blocks) c k.blocks []
  unfold prepare finalize at hd' ⊢
  simp only [hd, Bool.false_eq_true, if_false] at hd' ⊢
  split
  · next h => simp [h] at hd'
  · next h =>
    have h' : (prepareLoop (fuelOf k.blocks) c k.blocks []).1.abort = false := by simpa using h
    have he := prepareLoop_exact (fuelOf k.blocks) c k.blocks [] hm hi ha (Nat.le_refl _) h'
    simp only [dataBytes_nil, Nat.zero_add] at he hb
    exact ⟨he, hb⟩

theorem prepare_measure (c : Conv) (k : KState) (hm : 0 < c.mfs) (hw : 0 < c.window)
    (hd : k.dead = false) (hne : k.blocks ≠ []) :
    (prepare c k).2.2.dead = true ∨ fuelOf (prepare c k).2.2.blocks < fuelOf k.blocks := by
  obtain ⟨f, hf⟩ : ∃ f, fuelOf k.blocks = f + 1 := ⟨fuelOf k.blocks - 1, by have := fuelOf_pos k.blocks; omega⟩
  have hl := prepareLoop_fuel_lt f c k.blocks [] hm hw hne
  unfold prepare finalize
  simp only [hd, Bool.false_eq_true, if_false]
  split
  · exact Or.inl rfl
  · right; rw [hf] at hl ⊢; exact hl

/-- frames of a pass are all for the budgeted stream; the window never grows -/
theorem prepare_window_le (c : Conv) (k : KState) : (prepare c k).1.window ≤ c.window := by
  have := prepare_window c k; omega


theorem call_not_rst (c : Conv) (b : Block) (rest : List Block) : ∀ x ∈ (call c b rest).frames, x.ty ≠ tyRst := by
  intro x hx
  cases b with
  | chunk d =>
    simp only [call, callChunk] at hx
    split at hx <;> (try split at hx) <;> simp [dataFrame] at hx <;> (subst hx; exact tyRst_ne_tyData.symm)
  | flags eh es =>
    have h5 := (headerFrames_props c.sid es (chunksOf c.mfs c.out)).2.2.2.2
    simp only [call, callFlags, List.mem_append] at hx
    rcases hx with hx | hx
    · cases eh
      · simp at hx
      · by_cases ho : c.out.isEmpty
        · simp [ho] at hx
        · by_cases hl : c.out.length ≤ c.mfs
          · simp [ho, hl] at hx; subst hx; exact tyRst_ne_tyHeaders.symm
          · simp [ho, hl] at hx
            rcases (h5 x hx).1 with h | h
            · rw [h]; exact tyRst_ne_tyHeaders.symm
            · rw [h]; decide
    · split at hx
      · simp at hx; rw [hx.2]; exact tyRst_ne_tyData.symm
      · simp at hx; rw [hx.2]; exact tyRst_ne_tyData.symm
  | hdr enc => simp only [call, callHdr] at hx; split at hx <;> (try split at hx) <;> simp at hx
  | chunkHeader => simp [call] at hx

/-- the only RST_STREAM frames of a pass are the 4-byte ones of `initialize` / `finalize` -/
theorem prepare_rst_len (c : Conv) (k : KState) : ∀ g ∈ (prepare c k).2.1, g.ty = tyRst → g.payload.length = 4 := by
  intro g hg hgt
  have hl := prepareLoop_frames (fun x => x.ty ≠ tyRst) c.mfs c.sid
    (fun c' b rest _ _ x hx => call_not_rst c' b rest x hx) (fuelOf k.blocks) c k.blocks [] rfl rfl (by simp)
  unfold prepare finalize at hg
  split at hg
  · simp at hg; subst hg; rfl
  · split at hg
    · rcases List.mem_append.mp hg with h | h
      · exact absurd hgt (hl g h)
      · simp at h; subst h; rfl
    · exact absurd hgt (hl g hg)


/-! ### a pass whose budget covers the queue drains it -/

theorem call_cont_of_covered (c : Conv) (b : Block) (rest : List Block) (hm : 0 < c.mfs) (hi : c.incr = false)
    (hw : (bodyLen (b :: rest) : Int) ≤ c.window) :
    (call c b rest).cont = true ∨ (call c b rest).conv.abort = true := by
  cases b with
  | chunk d =>
    simp only [call, callChunk, hi]
    simp only [bodyLen_chunk] at hw
    have h1 : (d.length : Int) ≤ c.window := by push_cast at hw; omega
    by_cases h2 : d.length ≤ c.mfs
    · simp [h1, h2]
    · have hpos : 0 < c.window := by omega
      have hlt : c.mfs < c.window.toNat := by omega
      simp [h1, h2, hpos, hlt]
  | flags eh es => simp [call, callFlags]
  | hdr enc => simp only [call, callHdr]; split <;> (try split) <;> simp
  | chunkHeader => simp [call]

theorem prepareLoop_drain : ∀ (f : Nat) (c : Conv) (bs : List Block) (acc : List Frame),
    0 < c.mfs → c.incr = false → c.abort = false → fuelOf bs ≤ f → (bodyLen bs : Int) ≤ c.window →
    (prepareLoop f c bs acc).1.abort = false → (prepareLoop f c bs acc).2.2 = [] := by
  intro f
  induction f with
  | zero => intro c bs acc _ _ _ hf; have := fuelOf_pos bs; omega
  | succ f ih =>
    intro c bs acc hm hi ha hf hw hres
    cases bs with
    | nil => simp [prepareLoop]
    | cons b rest =>
      obtain ⟨h1, _⟩ := call_exact c b rest hm hi
      have hp := call_params c b rest
      have hcw := call_window c b rest
      have hbl := call_bodyLen c b rest
      simp only [prepareLoop] at hres ⊢
      split
      · next hc =>
        simp only [hc, if_true] at hres
        obtain ⟨ha', hfu, _⟩ := h1 hc
        refine ih _ _ _ (hp.1 ▸ hm) (hp.2.2.trans hi) (ha'.trans ha) (by omega) ?_ hres
        rw [hcw.1]
        have : (bodyLen (pushFront (call c b rest).pushback rest) : Int)
            = (bodyLen (b :: rest) : Int) - (dataBytes (call c b rest).frames : Int) := by
          have := hbl; omega
        omega
      · next hc =>
        have hc' : (call c b rest).cont = false := by simpa using hc
        simp only [hc', Bool.false_eq_true, if_false] at hres
        rcases call_cont_of_covered c b rest hm hi hw with h | h
        · rw [h] at hc'; cases hc'
        · rw [h] at hres; cases hres

theorem prepare_drain (c : Conv) (k : KState) (hm : 0 < c.mfs) (hi : c.incr = false) (ha : c.abort = false)
    (hd : k.dead = false) (hw : (bodyLen k.blocks : Int) ≤ c.window) (hd' : (prepare c k).2.2.dead = false) :
    (prepare c k).2.2.blocks = [] := by
  unfold prepare finalize at hd' ⊢
  simp only [hd, Bool.false_eq_true, if_false] at hd' ⊢
  split
  · next h => simp [h] at hd'
  · next h =>
    have h' : (prepareLoop (fuelOf k.blocks) c k.blocks []).1.abort = false := by simpa using h
    exact prepareLoop_drain _ c k.blocks [] hm hi ha (Nat.le_refl _) hw h'

theorem prepare_dead (c : Conv) (k : KState) (hd : k.dead = true) : (prepare c k).2.2.dead = true := by
  simp [prepare, hd]


/-! ### the sender ledger -/

/-- the converter as `write_streams` sets it up for stream `st` -/
@[reducible] def wsConv (c : Conn) (st : Stream) (sid : Nat) (incr : Bool) : Conv :=
  { mfs := c.peerMfs, window := min st.window c.window, sid := sid, out := [], incr := incr, abort := false }

/-- what `write_streams` does for one stream, in terms of the bytes it emitted -/
theorem writeStream_eq (c : Conn) (sid : Nat) (incr : Bool) (st : Stream) (h : findStream c sid = some st) :
    (writeStream c sid incr).2 = (prepare (wsConv c st sid incr) st.k).2.1 ∧
    (writeStream c sid incr).1 =
      { updStream c sid (fun s => { s with
            window := s.window - dataBytes (prepare (wsConv c st sid incr) st.k).2.1,
            k := (prepare (wsConv c st sid incr) st.k).2.2,
            sent := s.sent + dataBytes (prepare (wsConv c st sid incr) st.k).2.1 }) with
        window := c.window - dataBytes (prepare (wsConv c st sid incr) st.k).2.1,
        connSent := c.connSent + dataBytes (prepare (wsConv c st sid incr) st.k).2.1 } ∧
    (dataBytes (prepare (wsConv c st sid incr) st.k).2.1 : Int) ≤ max (min st.window c.window) 0 := by
  have hw := prepare_window (wsConv c st sid incr) st.k
  have hcons : min st.window c.window - (prepare (wsConv c st sid incr) st.k).1.window
      = (dataBytes (prepare (wsConv c st sid incr) st.k).2.1 : Int) := by
    have := hw.1
    simp only [wsConv] at this ⊢
    omega
  refine ⟨?_, ?_, hw.2⟩
  · simp only [writeStream, h]
  · simp only [writeStream, h]
    simp only [wsConv] at hcons ⊢
    rw [hcons]

theorem findStream_mem (c : Conn) (sid : Nat) (st : Stream) (h : findStream c sid = some st) :
    st ∈ c.streams ∧ st.sid = sid := by
  unfold findStream at h
  exact ⟨List.mem_of_find?_eq_some h, by simpa using List.find?_some h⟩

theorem findStream_updStream (c : Conn) (sid : Nat) (f : Stream → Stream) (hf : ∀ s, (f s).sid = s.sid) :
    findStream (updStream c sid f) sid = (findStream c sid).map f := by
  unfold findStream updStream
  simp only
  induction c.streams with
  | nil => simp
  | cons a t ih =>
    simp only [List.map_cons, List.find?_cons]
    by_cases ha : a.sid = sid
    · simp [ha, hf]
    · simp [ha, ih]


theorem step_frames (c : Conn) (op : Op) (fs : List Frame) (h : (step c op).2 = Out.frames fs) :
    ∃ sid incr, op = .write sid incr ∧ c.dead = false ∧ fs = (writeStream c sid incr).2 := by
  unfold step at h
  by_cases hd : c.dead
  · simp [hd] at h
  · simp only [hd, Bool.false_eq_true, if_false] at h
    cases op with
    | write sid incr => simp at h; exact ⟨sid, incr, rfl, by simpa using hd, h.symm⟩
    | settingsInitWin v => simp only at h; split at h <;> cases h
    | settingsMfs v => simp only at h; split at h <;> cases h
    | windowUpdate s i => simp only at h; split at h <;> cases h
    | openLocal w => simp only at h; split at h <;> cases h
    | _ => cases h

theorem step_write (c : Conn) (sid : Nat) (incr : Bool) (hd : c.dead = false) :
    step c (.write sid incr) = ((writeStream c sid incr).1, Out.frames (writeStream c sid incr).2) := by
  simp [step, hd]

theorem clampI32_le (v : Nat) : clampI32 v ≤ (v : Int) := by
  unfold clampI32; split <;> omega

/-- the ledger as sozu keeps it never shows more room than the peer granted -/
def LedgerOk (c : Conn) : Prop :=
  c.window ≤ c.connCredit - c.connSent ∧ ∀ s ∈ c.streams, s.window ≤ s.credit - s.sent

/-- side condition on locally opened streams: the window the `Stream` object was
    created with does not exceed the backend's current initial window -/
def OpenOk (c : Conn) : Op → Prop
  | .openLocal w0 => w0 ≤ c.peerInitWin
  | _ => True

def OpensOk : Conn → List Op → Prop
  | _, [] => True
  | c, o :: os => OpenOk c o ∧ OpensOk (step c o).1 os

instance (c : Conn) (op : Op) : Decidable (OpenOk c op) := by
  cases op <;> simp only [OpenOk] <;> infer_instance

instance decOpensOk : (c : Conn) → (ops : List Op) → Decidable (OpensOk c ops)
  | _, [] => isTrue trivial
  | c, o :: os => @instDecidableAnd _ _ _ (decOpensOk (step c o).1 os)

theorem ledgerOk_new (b : Bool) : LedgerOk (Conn.new b) := by
  refine ⟨?_, ?_⟩
  · simp [Conn.new]
  · simp [Conn.new]

theorem ledgerOk_write (c : Conn) (sid : Nat) (incr : Bool) (h : LedgerOk c) : LedgerOk (writeStream c sid incr).1 := by
  cases hfind : findStream c sid with
  | none => simpa [writeStream, hfind] using h
  | some st =>
    rw [(writeStream_eq c sid incr st hfind).2.1]
    refine ⟨?_, ?_⟩
    · have := h.1; simp only [updStream]; push_cast; omega
    · intro s hs
      simp only [updStream, List.mem_map] at hs
      obtain ⟨s0, hs0, rfl⟩ := hs
      have := h.2 s0 hs0
      split
      · simp only; push_cast; omega
      · exact this

theorem step_ledgerOk (c : Conn) (op : Op) (h : LedgerOk c) (ho : OpenOk c op) : LedgerOk (step c op).1 := by
  unfold step
  by_cases hd : c.dead
  · simpa [hd] using h
  · simp only [hd, Bool.false_eq_true, if_false]
    cases op with
    | settingsInitWin v =>
      simp only [settingsInitWin]
      cases hu : updateInitialWindow c v with
      | none => exact ⟨h.1, h.2⟩
      | some c' =>
        unfold updateInitialWindow at hu
        split at hu
        · cases hu
        · split at hu
          · injection hu with hu; subst hu
            refine ⟨h.1, ?_⟩
            intro s hs
            simp only [List.mem_map] at hs
            obtain ⟨s0, hs0, rfl⟩ := hs
            have := h.2 s0 hs0
            simp only; omega
          · cases hu
    | settingsMfs v => simp only [settingsMfs]; split <;> exact ⟨h.1, h.2⟩
    | settingsMaxStreams v => exact ⟨h.1, h.2⟩
    | windowUpdate sid inc =>
      simp only [windowUpdate]
      have hrem : ∀ c' : Conn, c'.window = c.window → c'.connCredit = c.connCredit → c'.connSent = c.connSent →
          (∀ s ∈ c'.streams, s ∈ c.streams) → LedgerOk c' := by
        intro c' h1 h2 h3 h4
        exact ⟨by rw [h1, h2, h3]; exact h.1, fun s hs => h.2 s (h4 s hs)⟩
      split
      · split
        · exact ⟨h.1, h.2⟩
        · split
          · exact hrem _ rfl rfl rfl (fun s hs => (List.mem_filter.mp hs).1)
          · exact h
      · split
        · split
          · refine ⟨?_, h.2⟩
            have := h.1; simp only; omega
          · exact ⟨h.1, h.2⟩
        · split
          · split
            · refine ⟨h.1, ?_⟩
              intro s hs
              simp only [updStream, List.mem_map] at hs
              obtain ⟨s0, hs0, rfl⟩ := hs
              have := h.2 s0 hs0
              split
              · simp only; omega
              · exact this
            · exact hrem _ rfl rfl rfl (fun s hs => (List.mem_filter.mp hs).1)
          · exact h
    | openPeer sid =>
      refine ⟨h.1, ?_⟩
      intro s hs
      simp only [openPeer, List.mem_append, List.mem_singleton] at hs
      rcases hs with hs | rfl
      · exact h.2 s hs
      · have := clampI32_le c.peerInitWin; simp only; omega
    | openLocal w0 =>
      simp only [openLocal]
      split
      · exact h
      · split
        · exact h
        · refine ⟨h.1, ?_⟩
          intro s hs
          simp only [List.mem_append, List.mem_singleton] at hs
          rcases hs with hs | rfl
          · exact h.2 s hs
          · have := clampI32_le w0
            have ho' : w0 ≤ c.peerInitWin := ho
            simp only; omega
    | push sid b =>
      refine ⟨h.1, ?_⟩
      intro s hs
      simp only [updStream, List.mem_map] at hs
      obtain ⟨s0, hs0, rfl⟩ := hs
      have := h.2 s0 hs0
      split <;> exact this
    | write sid incr => exact ledgerOk_write c sid incr h
    | close sid =>
      exact ⟨h.1, fun s hs => h.2 s (List.mem_filter.mp hs).1⟩


/-! ### receiver side -/

theorem sumK_nil (k : Nat) : sumK [] k = 0 := rfl
theorem sumK_cons (a : Nat × Nat) (t : List (Nat × Nat)) (k : Nat) :
    sumK (a :: t) k = (if a.1 = k then a.2 else 0) + sumK t k := by
  unfold sumK
  by_cases h : a.1 = k <;> simp [List.filter_cons, h]
theorem sumK_append (a b : List (Nat × Nat)) (k : Nat) : sumK (a ++ b) k = sumK a k + sumK b k := by
  simp [sumK]

theorem sumK_of_not_mem (l : List (Nat × Nat)) (k : Nat) (h : k ∉ l.map (·.1)) : sumK l k = 0 := by
  induction l with
  | nil => rfl
  | cons a t ih =>
    simp only [List.map_cons, List.mem_cons, not_or] at h
    rw [sumK_cons, ih h.2]
    have : ¬ a.1 = k := fun e => h.1 e.symm
    simp [this]

theorem find?_none_not_mem (l : List (Nat × Nat)) (k : Nat) (h : l.find? (·.1 = k) = none) : k ∉ l.map (·.1) := by
  intro hm
  obtain ⟨a, ha, rfl⟩ := List.mem_map.mp hm
  have := List.find?_eq_none.mp h a ha
  simp at this

theorem sumK_partition (l : List (Nat × Nat)) (p : Nat × Nat → Bool) (k : Nat) :
    sumK (l.filter p) k + sumK (l.filter (fun x => !p x)) k = sumK l k := by
  induction l with
  | nil => rfl
  | cons a t ih =>
    cases hp : p a <;> simp [List.filter_cons, hp, sumK_cons] <;> omega

/-- replacing the value of key `k` (keys unique): the total for `k` becomes the
    new value, the totals of other keys do not move, keys stay the same -/
theorem sumK_replace (l : List (Nat × Nat)) (k v : Nat) (p : Nat × Nat)
    (hn : (l.map (·.1)).Nodup) (hf : l.find? (·.1 = k) = some p) :
    sumK l k = p.2 ∧ sumK (l.map fun q => if q.1 = k then (q.1, v) else q) k = v ∧
    (∀ k', k' ≠ k → sumK (l.map fun q => if q.1 = k then (q.1, v) else q) k' = sumK l k') ∧
    (l.map fun q => if q.1 = k then (q.1, v) else q).map (·.1) = l.map (·.1) := by
  induction l with
  | nil => simp at hf
  | cons a t ih =>
    simp only [List.map_cons, List.nodup_cons] at hn
    by_cases ha : a.1 = k
    · have hp : p = a := by simpa [List.find?_cons, ha] using hf.symm
      subst hp
      have hnot : k ∉ t.map (·.1) := ha ▸ hn.1
      have hmap : (t.map fun q => if q.1 = k then (q.1, v) else q) = t := by
        have hid : ∀ q ∈ t, (fun q : Nat × Nat => if q.1 = k then (q.1, v) else q) q = id q := by
          intro q hq
          have : q.1 ≠ k := fun e => hnot (e ▸ List.mem_map_of_mem (f := (·.1)) hq)
          simp [this]
        rw [List.map_congr_left hid, List.map_id]
      have hkk : ∀ k', k' ≠ k → ¬ k = k' := fun k' hk' e => hk' e.symm
      refine ⟨?_, ?_, ?_, ?_⟩
      · rw [sumK_cons, sumK_of_not_mem t k hnot]; simp [ha]
      · simp only [List.map_cons, ha, if_true, hmap, sumK_cons, sumK_of_not_mem t k hnot]; simp
      · intro k' hk'
        simp only [List.map_cons, ha, if_true, hmap, sumK_cons]
        simp [hkk k' hk']
      · simp [ha, hmap]
    · have hf' : t.find? (·.1 = k) = some p := by simpa [List.find?_cons, ha] using hf
      obtain ⟨h1, h2, h3, h4⟩ := ih hn.2 hf'
      refine ⟨?_, ?_, ?_, ?_⟩
      · rw [sumK_cons, h1]; simp [ha]
      · simp only [List.map_cons, ha, if_false, sumK_cons, h2]; simp [ha]
      · intro k' hk'
        simp only [List.map_cons, ha, if_false, sumK_cons, h3 k' hk']
      · simp only [List.map_cons, ha, if_false, h4]

/-- receiver invariant: keys unique, every connection-level byte received is
    either announced, queued, still below the threshold, or lost -/
def RecvOk (r : Recv) : Prop :=
  (r.pending.map (·.1)).Nodup ∧
  r.consumed = r.announced + sumK r.pending 0 + r.since + r.lost ∧
  r.since ≤ r.icw / 2

theorem recvOk_new (icw ms : Nat) : RecvOk (Recv.new icw ms) := by
  simp [RecvOk, Recv.new, sumK]

/-- `queue_window_update`: keys stay unique, only the ledger of `sid` moves, and
    `inc` = what got queued + what the call reports as lost -/
theorem queueWu_spec (r : Recv) (sid inc : Nat) (hn : (r.pending.map (·.1)).Nodup) :
    ((queueWu r sid inc).1.pending.map (·.1)).Nodup ∧
    sumK (queueWu r sid inc).1.pending sid + (queueWu r sid inc).2 = sumK r.pending sid + inc ∧
    (∀ k, k ≠ sid → sumK (queueWu r sid inc).1.pending k = sumK r.pending k) ∧
    (queueWu r sid inc).1.since = r.since ∧ (queueWu r sid inc).1.consumed = r.consumed ∧
    (queueWu r sid inc).1.announced = r.announced ∧ (queueWu r sid inc).1.lost = r.lost ∧
    (queueWu r sid inc).1.icw = r.icw ∧ (queueWu r sid inc).1.maxPending = r.maxPending := by
  unfold queueWu
  cases hf : r.pending.find? (·.1 = sid) with
  | some p =>
    obtain ⟨h1, h2, h3, h4⟩ := sumK_replace r.pending sid (min (p.2 + inc) i32Max) p hn hf
    simp only
    refine ⟨by rw [h4]; exact hn, ?_, h3, ?_, ?_, ?_, ?_, ?_, ?_⟩ <;> try (first | rfl | trivial)
    rw [h2, h1]; omega
  | none =>
    have hnot := find?_none_not_mem r.pending sid hf
    simp only
    split
    · refine ⟨?_, ?_, ?_, ?_, ?_, ?_, ?_, ?_, ?_⟩ <;> try (first | rfl | trivial)
      · simp only [List.map_append, List.map_cons, List.map_nil]
        exact List.nodup_append.mpr ⟨hn, by simp, by
          intro a ha b hb; simp at hb; subst hb; exact fun e => hnot (e ▸ ha)⟩
      · rw [sumK_append, sumK_cons, sumK_nil]; simp; omega
      · intro k hk
        rw [sumK_append, sumK_cons, sumK_nil]
        have : ¬ sid = k := fun e => hk e.symm
        simp [this]
    · refine ⟨hn, by simp, fun _ _ => rfl, ?_, ?_, ?_, ?_, ?_, ?_⟩ <;> (first | rfl | trivial)

theorem recvData_ok (r : Recv) (sid len : Nat) (known es : Bool) (h : RecvOk r) (hk : known = true → sid ≠ 0) :
    RecvOk (recvData r sid len known es) ∧ (recvData r sid len known es).icw = r.icw := by
  obtain ⟨hn, hc, hs⟩ := h
  -- after the connection-level part
  have h2 : RecvOk (if r.since + len ≥ r.icw / 2 then
        { (queueWu { r with since := r.since + len, consumed := r.consumed + len } 0 (r.since + len)).1 with
          since := 0
          lost := (queueWu { r with since := r.since + len, consumed := r.consumed + len } 0 (r.since + len)).1.lost +
                  (queueWu { r with since := r.since + len, consumed := r.consumed + len } 0 (r.since + len)).2 }
      else { r with since := r.since + len, consumed := r.consumed + len }) ∧
      (if r.since + len ≥ r.icw / 2 then
        { (queueWu { r with since := r.since + len, consumed := r.consumed + len } 0 (r.since + len)).1 with
          since := 0
          lost := (queueWu { r with since := r.since + len, consumed := r.consumed + len } 0 (r.since + len)).1.lost +
                  (queueWu { r with since := r.since + len, consumed := r.consumed + len } 0 (r.since + len)).2 }
      else { r with since := r.since + len, consumed := r.consumed + len }).icw = r.icw := by
    split
    · obtain ⟨q1, q2, _, q4, q5, q6, q7, q8, _⟩ :=
        queueWu_spec { r with since := r.since + len, consumed := r.consumed + len } 0 (r.since + len) hn
      refine ⟨⟨q1, ?_, by simp⟩, q8⟩
      simp only at q2 q5 q6 q7 ⊢
      rw [q5, q6, q7]; omega
    · exact ⟨⟨hn, by simp only; omega, by simp only; omega⟩, rfl⟩
  unfold recvData
  simp only
  split
  · next hcond =>
    have h0 : sid ≠ 0 := hk (by
      cases known
      · simp at hcond
      · rfl)
    obtain ⟨⟨hn2, hc2, hs2⟩, hi2⟩ := h2
    obtain ⟨q1, q2, q3, q4, q5, q6, q7, q8, _⟩ := queueWu_spec _ sid len hn2
    refine ⟨⟨q1, ?_, by rw [q4, q8]; exact hs2⟩, by rw [q8]; exact hi2⟩
    rw [q5, q6, q7, q4, q3 0 (fun e => h0 e.symm)]; exact hc2
  · exact h2

theorem flushWu_ok (r : Recv) (ids : List Nat) (h : RecvOk r) :
    RecvOk (flushWu r ids).1 ∧ (flushWu r ids).1.icw = r.icw := by
  obtain ⟨hn, hc, hs⟩ := h
  refine ⟨⟨?_, ?_, hs⟩, rfl⟩
  · simp only [flushWu]
    exact List.Nodup.sublist (List.Sublist.map _ List.filter_sublist) hn
  · simp only [flushWu]
    have := sumK_partition r.pending (fun p => ids.contains p.1) 0
    omega

theorem rstep_ok (r : Recv) (op : ROp) (h : RecvOk r) : RecvOk (rstep r op) ∧ (rstep r op).icw = r.icw := by
  cases op with
  | data sid len known es =>
    exact recvData_ok r sid len (known && sid != 0) es h (by
      intro hh; simp at hh; exact hh.2)
  | flush ids => exact flushWu_ok r ids h

theorem rrun_ok (r : Recv) (ops : List ROp) (h : RecvOk r) : RecvOk (rrun r ops) ∧ (rrun r ops).icw = r.icw := by
  induction ops generalizing r with
  | nil => exact ⟨h, rfl⟩
  | cons o os ih =>
    have h1 := rstep_ok r o h
    have h2 := ih (rstep r o) h1.1
    exact ⟨h2.1, h2.2.trans h1.2⟩

end Sozu.H2Flow
