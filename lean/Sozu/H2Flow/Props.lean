
import Sozu.H2Flow.Proofs
/-
C14 — sozu respects every HTTP/2 peer limit and keeps transfers moving.
Only property statements (`C14_*`) and their non-vacuity examples live here.
-/
set_option linter.unusedSimpArgs false
set_option linter.unusedVariables false
namespace Sozu.H2Flow
open Sozu

/-! ## frame size -/

/-- Converter level: whatever the queue, the budget and the header block, no
    frame produced by a pass carries more than `max_frame_size` bytes (the
    4-byte RST_STREAM control frame aside). HEADERS/CONTINUATION included. -/
theorem C14_frame_size (c : Conv) (k : KState) :
    ∀ f ∈ (prepare c k).2.1, f.ty ≠ tyRst → f.payload.length ≤ c.mfs :=
  prepare_frame_size c k

/-- …and an oversized header block is split without losing or reordering a byte. -/
theorem C14_frame_size_header_complete (c : Conv) (es : Bool) (hm : 0 < c.mfs) :
    headerBytes (callFlags c true es).frames = c.out ∧
    ∀ f ∈ (callFlags c true es).frames, f.payload.length ≤ c.mfs :=
  ⟨callFlags_header_bytes c es hm, callFlags_frame_size c true es⟩

/-- Connection level: along every run, every frame written for a stream fits
    the peer's current SETTINGS_MAX_FRAME_SIZE (RST_STREAM is 4 bytes). -/
theorem C14_frame_size_run (c : Conn) (ops : List Op) :
    ∀ e ∈ trace c ops, ∀ fs, e.2.2.2 = Out.frames fs →
      ∀ f ∈ fs, f.payload.length ≤ max e.1.peerMfs 4 :=
  C14_frame_size_run_pf c ops

example : ∃ f ∈ (prepare { mfs := 2, window := 10, sid := 1, out := [1, 2, 3, 4, 5], incr := false, abort := false }
    ⟨[.flags true false, .chunk [7, 8, 9]], false⟩).2.1, f.ty = tyContinuation := by decide

/-! ## flow-control windows are never exceeded -/

/-- One pass never emits more flow-controlled bytes than its budget, and the
    budget is decremented by exactly what went out (for every queue, every
    header block, every max frame size, incremental or not). -/
theorem C14_never_exceeds_window_pass (c : Conv) (k : KState) :
    (dataBytes (prepare c k).2.1 : Int) ≤ max c.window 0 ∧
    (prepare c k).1.window = c.window - dataBytes (prepare c k).2.1 :=
  ⟨(prepare_window c k).2, (prepare_window c k).1⟩

/-- Frontend position, full strength: on a connection where every stream is
    opened by the peer (`FrontOnly`: no `start_stream`; that is every connection
    toward a client, whose streams `create_stream` initialises from the peer's
    SETTINGS_INITIAL_WINDOW_SIZE), from the initial state and for EVERY schedule
    of peer SETTINGS (initial-window deltas, frame sizes, stream limits),
    WINDOW_UPDATEs, stream opens, pushes, closes and write passes: whenever a
    pass puts DATA on the wire for a stream, the bytes sent so far on that
    stream do not exceed what the peer granted for it (initial window at open +
    WINDOW_UPDATEs + SETTINGS deltas), and the connection total does not exceed
    the connection-level grant. No hypothesis on the schedule. -/
theorem C14_never_exceeds_window (isClient : Bool) (ops : List Op) (hf : FrontOnly ops) :
    ∀ e ∈ trace (Conn.new isClient) ops, ∀ sid incr fs,
      e.2.1 = Op.write sid incr → e.2.2.2 = Out.frames fs → 0 < dataBytes fs →
      (∀ st, findStream e.2.2.1 sid = some st → (st.sent : Int) ≤ st.credit) ∧
      (e.2.2.1.connSent : Int) ≤ e.2.2.1.connCredit :=
  C14_never_exceeds_window_partial_pf (Conn.new isClient) ops (ledgerOk_new isClient)
    (opensOk_of_frontOnly ops _ hf)

/-- non-vacuity: a front-only schedule with a SETTINGS delta below zero and a
    later WINDOW_UPDATE in which two passes really put DATA on the wire -/
example :
    let ops := [Op.openPeer 1, .push 1 (.chunk [1, 2, 3, 4, 5]), .settingsInitWin 2, .write 1 false,
                .settingsInitWin 0, .write 1 false, .windowUpdate 1 4, .write 1 false]
    FrontOnly ops ∧
    (trace (Conn.new false) ops).map (fun e => match e.2.2.2 with | .frames fs => dataBytes fs | _ => 0)
      = [0, 0, 0, 2, 0, 0, 0, 2] := by
  refine ⟨?_, by decide +kernel⟩
  intro o ho w
  simp only [List.mem_cons, List.mem_nil_iff, or_false] at ho
  rcases ho with rfl | rfl | rfl | rfl | rfl | rfl | rfl | rfl <;> simp

/-- For every schedule of peer SETTINGS / WINDOW_UPDATE, pushes, opens, closes
    and write passes: whenever a pass puts DATA on the wire for a stream, the
    bytes sent so far on that stream do not exceed what the peer granted for it
    (its initial window when the stream opened + WINDOW_UPDATEs + SETTINGS
    deltas), and the total does not exceed the connection-level grant.
    General version, from any state with a sound ledger. Partial for the
    backend position: holds when every locally opened stream starts from a
    window that does not exceed the peer's SETTINGS_INITIAL_WINDOW_SIZE
    (`OpensOk`); the code does not establish that for streams toward an h2c
    backend (open finding F64), see the counterexample. -/
theorem C14_never_exceeds_window_partial (c : Conn) (ops : List Op) (h0 : LedgerOk c) (hop : OpensOk c ops) :
    ∀ e ∈ trace c ops, ∀ sid incr fs, e.2.1 = Op.write sid incr → e.2.2.2 = Out.frames fs → 0 < dataBytes fs →
      (∀ st, findStream e.2.2.1 sid = some st → (st.sent : Int) ≤ st.credit) ∧
      (e.2.2.1.connSent : Int) ≤ e.2.2.1.connCredit :=
  C14_never_exceeds_window_partial_pf c ops h0 hop

/-- What the code really does for a stream toward an h2c backend: the `Stream`
    object keeps the window its *frontend* side gave it (`1 << 16` for HTTP/1
    frontends, `Consts.muxH1FrontStreamWindow`), while the backend granted its
    own SETTINGS_INITIAL_WINDOW_SIZE (here the RFC default 65535). As soon as the
    backend enlarges the connection window, one byte too many goes out. -/
theorem C14_never_exceeds_window_counterexample :
    let ops := [Op.settingsInitWin 3, Op.openLocal Consts.muxH1FrontStreamWindow,
                Op.push 1 (.chunk [1, 2, 3, 4, 5, 6, 7, 8, 9, 10]), Op.write 1 false]
    let c := run (Conn.new true) ops
    ∃ st, findStream c 1 = some st ∧ st.credit = 3 ∧ st.sent = 10 := by
  refine ⟨_, rfl, ?_⟩
  decide +kernel

/-- the same over-commit by a single byte against the RFC default window:
    `1 << 16` is one more than 65535 -/
theorem C14_never_exceeds_window_counterexample_default :
    ¬ OpenOk (Conn.new true) (Op.openLocal Consts.muxH1FrontStreamWindow) ∧
    ¬ OpenOk (Conn.new true) (Op.openLocal Consts.muxH1sFrontStreamWindow) := by decide

example : LedgerOk (Conn.new true) ∧ OpensOk (Conn.new true)
    [.openLocal 65535, .push 1 (.chunk [1, 2, 3]), .settingsInitWin 2, .write 1 false, .windowUpdate 1 5, .write 1 false] :=
  ⟨ledgerOk_new true, by decide⟩


/-! ## transfers keep moving -/

/-- Non-incremental pass on a live stream: the pass uses its budget exactly —
    it emits `min(budget, queued body bytes)` flow-controlled bytes (so ≥ 1 byte
    whenever the effective window is positive and something is queued), unless
    the stream is reset by the header-list budget in this very pass. -/
theorem C14_progress (c : Conv) (k : KState) (hm : 0 < c.mfs) (hi : c.incr = false) (ha : c.abort = false)
    (hd : k.dead = false) (hd' : (prepare c k).2.2.dead = false) :
    dataBytes (prepare c k).2.1 = min c.window.toNat (bodyLen k.blocks) ∧
    bodyLen (prepare c k).2.2.blocks = bodyLen k.blocks - min c.window.toNat (bodyLen k.blocks) := by
  obtain ⟨h1, h2⟩ := prepare_exact c k hm hi ha hd hd'
  exact ⟨h1, by omega⟩

/-- Any mode (including the RFC 9218 incremental yield): a pass that starts
    with a positive budget on a non-empty queue strictly shortens the queue
    (measure: queued bytes + 2 per block), or resets the stream. Hence a body of
    `n` bytes in `b` blocks is out after at most `n + 2b + 1` such passes. -/
theorem C14_progress_measure (c : Conv) (k : KState) (hm : 0 < c.mfs) (hw : 0 < c.window)
    (hd : k.dead = false) (hne : k.blocks ≠ []) :
    (prepare c k).2.2.dead = true ∨ fuelOf (prepare c k).2.2.blocks < fuelOf k.blocks :=
  prepare_measure c k hm hw hd hne

/-- Connection level: once the peer has granted enough credit on both levels
    (stream window and connection window cover what is queued), one
    `write_streams` iteration puts the whole body and its END_STREAM on the
    wire, in order (`events`), whatever happened before. -/
theorem C14_progress_complete (c : Conn) (sid : Nat) (st : Stream) (hf : findStream c sid = some st)
    (hmfs : 0 < c.peerMfs) (hd : st.k.dead = false)
    (hs : (bodyLen st.k.blocks : Int) ≤ st.window) (hc : (bodyLen st.k.blocks : Int) ≤ c.window) :
    ∀ st', findStream (writeStream c sid false).1 sid = some st' → st'.k.dead = false →
      bodyLen st'.k.blocks = 0 ∧ events (writeStream c sid false).2 ++ eventsB st'.k.blocks = eventsB st.k.blocks :=
  C14_progress_complete_pf c sid st hf hmfs hd hs hc

/-- Whole runs under a fair credit schedule. Rounds of "anything quiet for the
    stream (peer WINDOW_UPDATEs on any stream, SETTINGS_INITIAL_WINDOW_SIZE
    deltas up or down, other SETTINGS, pushes and write passes of the OTHER
    streams, which eat connection window), then one write pass of the stream";
    `Fair`: the connection stays up, the stream is not reset by the peer, and
    whenever body bytes are queued both windows are positive at pass time (how
    much credit, and when, is the peer's choice). Then, as long as the stream is
    not reset by the header-list budget:
    * nothing is lost, duplicated or reordered over the whole run (what was
      written ++ what is still queued = what was queued), and
    * every round strictly shrinks the queued body: after `n` rounds at most
      `body − n` bytes are left, so a body of `n` bytes is completely on the
      wire after at most `n` rounds (termination measure: queued body bytes);
    * the rounds are an ordinary run of the connection (`run`). -/
theorem C14_progress_run (c : Conn) (sid : Nat) (rounds : List (List Op)) (st : Stream)
    (hfair : Fair c sid rounds) (hf : findStream c sid = some st) (hd : st.k.dead = false) :
    (∀ st', findStream (fairRun c sid rounds).1 sid = some st' → st'.k.dead = false →
      events (fairRun c sid rounds).2 ++ eventsB st'.k.blocks = eventsB st.k.blocks ∧
      bodyLen st'.k.blocks ≤ bodyLen st.k.blocks - rounds.length) ∧
    (fairRun c sid rounds).1 = run c (rounds.flatMap (· ++ [Op.write sid false])) :=
  ⟨progress_run sid rounds c st hfair hf hd, fairRun_eq_run sid rounds c hfair⟩

/-- non-vacuity: a 5-byte body against a 2-byte initial window, a SETTINGS delta
    that takes the window below zero and back, a 1-byte drip; 4 fair rounds -/
example :
    let c := run (Conn.new false) [.openPeer 1, .settingsInitWin 2, .push 1 (.chunk [1, 2, 3, 4, 5]), .push 1 (.flags false true)]
    let rounds : List (List Op) := [[], [.settingsInitWin 0, .settingsInitWin 3], [.windowUpdate 1 1], [.windowUpdate 1 9]]
    Fair c 1 rounds ∧ events (fairRun c 1 rounds).2 = [some 1, some 2, some 3, some 4, some 5, none] := by
  refine ⟨?_, by decide +kernel⟩
  refine ⟨by simp, by decide +kernel, by decide +kernel, ⟨_, rfl, fun _ => by decide +kernel⟩, ?_⟩
  refine ⟨?_, by decide +kernel, by decide +kernel, ⟨_, rfl, fun _ => by decide +kernel⟩, ?_⟩
  · intro o ho; simp only [List.mem_cons, List.mem_nil_iff, or_false] at ho; rcases ho with rfl | rfl <;> trivial
  refine ⟨?_, by decide +kernel, by decide +kernel, ⟨_, rfl, fun _ => by decide +kernel⟩, ?_⟩
  · intro o ho; simp only [List.mem_cons, List.mem_nil_iff, or_false] at ho; rcases ho with rfl <;> trivial
  refine ⟨?_, by decide +kernel, by decide +kernel, ⟨_, rfl, fun _ => by decide +kernel⟩, trivial⟩
  intro o ho; simp only [List.mem_cons, List.mem_nil_iff, or_false] at ho; rcases ho with rfl <;> trivial

example : dataBytes (prepare { mfs := 2, window := 3, sid := 1, out := [], incr := false, abort := false }
    ⟨[.chunk [1, 2, 3, 4, 5], .flags false true], false⟩).2.1 = 3 := by decide

/-! ## WINDOW_UPDATE -/

/-- `handle_window_update_frame`: a zero increment is an error (connection error
    on stream 0, stream error otherwise); an increment that would lift a window
    past 2^31-1 is a FLOW_CONTROL_ERROR of the same scope; otherwise the credit is
    added exactly, to that window only. -/
theorem C14_window_update_rules (c : Conn) (sid inc : Nat) (hi : inc ≤ i32Max) :
    (inc = 0 → sid = 0 → (windowUpdate c sid inc).2 = some .goawayProtocol ∧ (windowUpdate c sid inc).1.dead = true) ∧
    (inc = 0 → sid ≠ 0 → ∀ st, findStream c sid = some st →
        (windowUpdate c sid inc).2 = some (.rstProtocol sid) ∧ findStream (windowUpdate c sid inc).1 sid = none) ∧
    (0 < inc → sid = 0 → c.window + inc > i32Max →
        (windowUpdate c sid inc).2 = some .goawayFlowControl ∧ (windowUpdate c sid inc).1.dead = true) ∧
    (0 < inc → sid = 0 → c.window + inc ≤ i32Max →
        (windowUpdate c sid inc).2 = none ∧ (windowUpdate c sid inc).1.window = c.window + inc ∧
        (windowUpdate c sid inc).1.streams = c.streams) ∧
    (0 < inc → sid ≠ 0 → ∀ st, findStream c sid = some st → st.window + inc > i32Max →
        (windowUpdate c sid inc).2 = some (.rstFlowControl sid) ∧ findStream (windowUpdate c sid inc).1 sid = none) ∧
    (0 < inc → sid ≠ 0 → ∀ st, findStream c sid = some st → st.window + inc ≤ i32Max →
        (windowUpdate c sid inc).2 = none ∧ (windowUpdate c sid inc).1.window = c.window ∧
        (∃ st', findStream (windowUpdate c sid inc).1 sid = some st' ∧ st'.window = st.window + inc) ∧
        ∀ s ∈ (windowUpdate c sid inc).1.streams, s.sid ≠ sid → s ∈ c.streams) :=
  C14_window_update_rules_pf c sid inc hi

example : (windowUpdate (run (Conn.new false) [.openPeer 1]) 1 7).2 = none := by decide

/-! ## SETTINGS_INITIAL_WINDOW_SIZE -/

/-- `update_initial_window_size`: a legal value shifts the send window of every
    open stream by exactly `new − old` (possibly below zero), leaves the
    connection window alone and becomes the initial window of later streams;
    it is refused iff the value exceeds 2^31-1 or some stream window would. -/
theorem C14_settings_delta (c : Conn) (v : Nat) :
    (∀ c', updateInitialWindow c v = some c' →
        c'.peerInitWin = v ∧ c'.window = c.window ∧
        c'.streams.map (·.window) = c.streams.map (fun s => s.window + ((v : Int) - c.peerInitWin)) ∧
        c'.streams.map (·.sid) = c.streams.map (·.sid)) ∧
    (updateInitialWindow c v = none ↔
        v > i32Max ∨ ∃ s ∈ c.streams, s.window + ((v : Int) - c.peerInitWin) > i32Max) :=
  C14_settings_delta_pf c v

/-- a new peer-initiated stream starts from the peer's current initial window -/
theorem C14_settings_delta_new_stream (c : Conn) (sid : Nat) (hv : c.peerInitWin ≤ i32Max) :
    ∃ st ∈ (openPeer c sid).streams, st.sid = sid ∧ st.window = c.peerInitWin :=
  C14_settings_delta_new_stream_pf c sid hv

example : ((updateInitialWindow (run (Conn.new false) [.openPeer 1, .openPeer 3]) 10).map
    fun c => c.streams.map (·.window)) = some [-65525 + 65535, -65525 + 65535] := by decide

/-! ## stream identifiers and concurrency -/

/-- `next_stream_id` from an even watermark: the issued id fits 31 bits, has the
    parity of the role, is not below the watermark (strictly above it, hence
    non-zero, for the client role that sozu actually uses), and the new
    watermark is even and strictly above the issued id — so successive
    allocations are strictly increasing. -/
theorem C14_stream_ids_legal (last : Nat) (isClient : Bool) (i n : Nat)
    (h : nextStreamId last isClient = some (i, n)) (he : last % 2 = 0) :
    i ≤ Consts.h2StreamIdMax ∧ (i % 2 = 1 ↔ isClient = true) ∧ last ≤ i ∧ i < n ∧ n % 2 = 0 ∧
    (isClient = true → last < i ∧ 0 < i) ∧
    ∀ i' n', nextStreamId n isClient = some (i', n') → i < i' :=
  C14_stream_ids_legal_pf last isClient i n h he

/-- the allocator refuses rather than leave the 31-bit space -/
theorem C14_stream_ids_exhaustion (last : Nat) (isClient : Bool) :
    (∃ p, nextStreamId last isClient = some p) → issuedId last isClient ≤ Consts.h2StreamIdMax :=
  C14_stream_ids_exhaustion_pf last isClient

example : nextStreamId 0 true = some (1, 2) ∧ nextStreamId 2 true = some (3, 4) ∧
    nextStreamId 2147483646 true = some (2147483647, 2147483648) ∧ nextStreamId 2147483648 true = none := by decide

/-- `start_stream` never opens more streams toward a peer than its current
    SETTINGS_MAX_CONCURRENT_STREAMS allows. -/
theorem C14_concurrent_streams (c : Conn) (w0 : Nat) (sid : Nat) (h : (openLocal c w0).2 = some sid) :
    (openLocal c w0).1.streams.length ≤ c.peerMaxStreams ∧
    (openLocal c w0).1.streams.length = c.streams.length + 1 :=
  C14_concurrent_streams_pf c w0 sid h

example : (openLocal { Conn.new true with peerMaxStreams := 1 } 65535).2 = some 1 ∧
    (openLocal (openLocal { Conn.new true with peerMaxStreams := 1 } 65535).1 65535).2 = none := by decide


/-! ## receiver side: sozu replenishes the windows it advertises -/

/-- Accounting identity, for every sequence of received DATA frames and flush
    points: each flow-controlled byte received on the connection is either
    already announced in a WINDOW_UPDATE on the wire, queued for the next flush,
    still under the half-window threshold, or was lost by the bounded queue
    (`lost`: entry dropped because `pending_window_updates` was full, or cut by
    the `i32::MAX` saturation). -/
theorem C14_wu_replenish_ledger (icw ms : Nat) (ops : List ROp) :
    let r := rrun (Recv.new icw ms) ops
    r.consumed = r.announced + sumK r.pending 0 + r.since + r.lost ∧ r.since ≤ icw / 2 :=
  C14_wu_replenish_ledger_pf icw ms ops

/-- Hence, as long as the bounded WINDOW_UPDATE queue never dropped or cut a
    connection-level credit, what the peer has consumed of sozu's connection
    window minus what sozu has announced or queued back never exceeds half the
    advertised window: the advertised window cannot starve.
    Partial: the hypothesis excludes the drop branch of `queue_window_update`. -/
theorem C14_wu_replenish_partial (icw ms : Nat) (ops : List ROp)
    (hl : (rrun (Recv.new icw ms) ops).lost = 0) :
    let r := rrun (Recv.new icw ms) ops
    r.consumed - (r.announced + sumK r.pending 0) ≤ icw / 2 ∧ icw / 2 ≤ icw :=
  C14_wu_replenish_partial_pf icw ms ops hl

/-- The excluded point is real in the model: with the queue full of stream
    entries, a connection-level credit is silently dropped and those bytes of
    the advertised connection window are never given back. -/
theorem C14_wu_replenish_counterexample :
    let r := rrun (Recv.new 65535 0) [.data 1 10 true false, .data 3 40000 false false, .flush [0, 1]]
    r.consumed = 40010 ∧ r.announced = 0 ∧ r.pending = [] ∧ r.since = 0 ∧ r.lost = 40010 := by
  decide +kernel

example : (rrun (Recv.new 65535 100) [.data 1 10 true false, .data 3 40000 false false, .flush [0, 1]]).lost = 0 ∧
    (rrun (Recv.new 65535 100) [.data 1 10 true false, .data 3 40000 false false, .flush [0, 1]]).announced = 40010 := by
  decide +kernel

/-- DATA that lands on a stream sozu has already closed, reset or refused
    (`known = false`: RST_STREAM(STREAM_CLOSED) is queued, the payload still goes
    through `handle_data_frame` on stream 0) is credited to the connection window
    like any other DATA: after any history, such a frame of `len` bytes raises
    the consumed total by `len` and the accounting identity still holds, i.e.
    those bytes are announced, queued for the next flush, under the half-window
    threshold, or reported lost by the bounded queue — never silently gone. -/
theorem C14_wu_replenish_closed_stream (icw ms : Nat) (ops : List ROp) (sid len : Nat) (es : Bool) :
    let r := rrun (Recv.new icw ms) ops
    let r' := rstep r (.data sid len false es)
    r'.consumed = r.consumed + len ∧
    r'.consumed = r'.announced + sumK r'.pending 0 + r'.since + r'.lost ∧ r'.since ≤ icw / 2 :=
  wu_replenish_closed_stream icw ms ops sid len es

/-- sixteen rejected uploads of 65535 bytes: the code gives the window back
    (589815 bytes announced at the half-window threshold, the other 458745
    counted toward the next one)… -/
example :
    let r := rrun (Recv.new 1048576 100) ((List.replicate 16 (ROp.data 1 65535 false false)) ++ [.flush [0]])
    r.consumed = 1048560 ∧ r.announced = 589815 ∧ r.since = 458745 ∧ r.lost = 0 := by decide +kernel

/-- …while skipping those payloads without crediting them (`discardData`) breaks
    the identity: the peer has 16 bytes of connection window left for ever. -/
theorem C14_wu_replenish_closed_stream_needs_crediting :
    let r := (List.replicate 16 65535).foldl discardData (Recv.new 1048576 100)
    r.consumed = 1048560 ∧ r.announced + sumK r.pending 0 + r.since + r.lost = 0 ∧
    r.icw - (r.consumed - r.announced) = 16 := by decide +kernel

/-- stream level (`handle_data_frame` queues `wire_payload_len` for the stream on
    every DATA frame that does not end it): the queue conserves credit — what
    is queued for the stream afterwards plus what the call reports as lost is
    what was queued before plus the increment; other streams are untouched. -/
theorem C14_wu_replenish_stream (r : Recv) (sid inc : Nat) (hn : (r.pending.map (·.1)).Nodup) :
    sumK (queueWu r sid inc).1.pending sid + (queueWu r sid inc).2 = sumK r.pending sid + inc ∧
    (∀ k, k ≠ sid → sumK (queueWu r sid inc).1.pending k = sumK r.pending k) ∧
    (r.pending.length < r.maxPending → sumK r.pending sid + inc ≤ i32Max → (queueWu r sid inc).2 = 0) :=
  C14_wu_replenish_stream_pf r sid inc hn

/-! ## HPACK table sizes -/

/-- Every change of SETTINGS_HEADER_TABLE_SIZE is signalled at the start of the
    next header block, whatever header-less passes (SETTINGS ACK, DATA-only,
    idle) intervene, and exactly once: for every schedule of SETTINGS and write
    passes, right after any pass that carried a header block the size announced
    on the wire equals the encoder's table size and nothing is pending; a pass
    with a header block emits an update iff one was pending, and that update is
    the encoder's current size (hence never above the peer's last setting). -/
theorem C14_hpack_size_update_signalled (ops : List HpOp) :
    HpInv (hpRun true Hp.init ops) ∧
    (let h := hpRun true Hp.init ops
     (hpStep true h (.pass true)).1.pending = none ∧
     (hpStep true h (.pass true)).1.announced = (hpStep true h (.pass true)).1.encSize ∧
     (hpStep true h (.pass true)).2 = h.pending ∧
     (hpStep true h (.pass false)).1 = h ∧ (hpStep true h (.pass false)).2 = none) :=
  C14_hpack_size_update_signalled_pf ops

/-- moving the signal into the per-pass converter without giving it back loses it
    in the first header-less pass: the peer keeps 4096 while the encoder uses 0 -/
theorem C14_hpack_size_update_signalled_needs_bookkeeping :
    let ops := [HpOp.settings 0 65536, .pass false, .pass true]
    (hpRun false Hp.init ops).announced = 4096 ∧ (hpRun false Hp.init ops).encSize = 0 ∧
    (hpRun true Hp.init ops).announced = 0 := by decide


end Sozu.H2Flow
