import Sozu.H2Flow.Lemmas
/-
C14 — sozu respects every HTTP/2 peer limit and keeps transfers moving.
Only property statements (`C14_*`) and their non-vacuity examples live here.
-/
set_option linter.unusedSimpArgs false
set_option linter.unusedVariables false
namespace Sozu.H2Flow
open Sozu

/-! ## frame size -/

/-- Converter level: whatever the queue, the budget and the header block, no
    frame produced by a pass carries more than `max_frame_size` bytes (the
    4-byte RST_STREAM control frame aside). HEADERS/CONTINUATION included. -/
theorem C14_frame_size (c : Conv) (k : KState) :
    ∀ f ∈ (prepare c k).2.1, f.ty ≠ tyRst → f.payload.length ≤ c.mfs :=
  prepare_frame_size c k

/-- …and an oversized header block is split without losing or reordering a byte. -/
theorem C14_frame_size_header_complete (c : Conv) (es : Bool) (hm : 0 < c.mfs) :
    headerBytes (callFlags c true es).frames = c.out ∧
    ∀ f ∈ (callFlags c true es).frames, f.payload.length ≤ c.mfs :=
  ⟨callFlags_header_bytes c es hm, callFlags_frame_size c true es⟩

/-- Connection level: along every run, every frame written for a stream fits
    the peer's current SETTINGS_MAX_FRAME_SIZE (RST_STREAM is 4 bytes). -/
theorem C14_frame_size_run (c : Conn) (ops : List Op) :
    ∀ e ∈ trace c ops, ∀ fs, e.2.2.2 = Out.frames fs →
      ∀ f ∈ fs, f.payload.length ≤ max e.1.peerMfs 4 := by
  induction ops generalizing c with
  | nil => simp [trace]
  | cons o os ih =>
    intro e he fs hfs f hf
    simp only [trace, List.mem_cons] at he
    rcases he with rfl | he
    · obtain ⟨sid, incr, rfl, hd, rfl⟩ := step_frames c o fs hfs
      cases hfind : findStream c sid with
      | none => simp [writeStream, hfind] at hf
      | some st =>
        rw [(writeStream_eq c sid incr st hfind).1] at hf
        by_cases hr : f.ty = tyRst
        · have := prepare_rst_len (wsConv c st sid incr) st.k f hf hr
          simp only; omega
        · have := prepare_frame_size (wsConv c st sid incr) st.k f hf hr
          simp only [wsConv] at this ⊢
          omega
    · exact ih _ e he fs hfs f hf

example : ∃ f ∈ (prepare { mfs := 2, window := 10, sid := 1, out := [1, 2, 3, 4, 5], incr := false, abort := false }
    ⟨[.flags true false, .chunk [7, 8, 9]], false⟩).2.1, f.ty = tyContinuation := by decide

/-! ## flow-control windows are never exceeded -/

/-- One pass never emits more flow-controlled bytes than its budget, and the
    budget is decremented by exactly what went out (for every queue, every
    header block, every max frame size, incremental or not). -/
theorem C14_never_exceeds_window_pass (c : Conv) (k : KState) :
    (dataBytes (prepare c k).2.1 : Int) ≤ max c.window 0 ∧
    (prepare c k).1.window = c.window - dataBytes (prepare c k).2.1 :=
  ⟨(prepare_window c k).2, (prepare_window c k).1⟩

/-- For every schedule of peer SETTINGS / WINDOW_UPDATE, pushes, opens, closes
    and write passes: whenever a pass puts DATA on the wire for a stream, the
    bytes sent so far on that stream do not exceed what the peer granted for it
    (its initial window when the stream opened + WINDOW_UPDATEs + SETTINGS
    deltas), and the total does not exceed the connection-level grant.
    Partial: holds when every locally opened stream starts from a window that
    does not exceed the peer's SETTINGS_INITIAL_WINDOW_SIZE (`OpensOk`); the
    code does not establish that for backend streams, see the counterexample. -/
theorem C14_never_exceeds_window_partial (c : Conn) (ops : List Op) (h0 : LedgerOk c) (hop : OpensOk c ops) :
    ∀ e ∈ trace c ops, ∀ sid incr fs, e.2.1 = Op.write sid incr → e.2.2.2 = Out.frames fs → 0 < dataBytes fs →
      (∀ st, findStream e.2.2.1 sid = some st → (st.sent : Int) ≤ st.credit) ∧
      (e.2.2.1.connSent : Int) ≤ e.2.2.1.connCredit := by
  induction ops generalizing c with
  | nil => simp [trace]
  | cons o os ih =>
    intro e he sid incr fs hop' hfs hpos
    simp only [trace, List.mem_cons] at he
    rcases he with rfl | he
    · simp only at hop' hfs ⊢
      subst hop'
      obtain ⟨sid', incr', heq, hd, rfl⟩ := step_frames c _ fs hfs
      injection heq with h1 h2; subst h1; subst h2
      rw [step_write c sid incr hd]
      simp only
      cases hfind : findStream c sid with
      | none => simp [writeStream, hfind] at hpos
      | some st =>
        obtain ⟨e1, e2, e3⟩ := writeStream_eq c sid incr st hfind
        rw [e1] at hpos
        have hmem := findStream_mem c sid st hfind
        have hst := h0.2 st hmem.1
        have hc := h0.1
        rw [e2]
        refine ⟨?_, ?_⟩
        · intro st' hst'
          have hfu : findStream
              { updStream c sid (fun s => { s with
                    window := s.window - dataBytes (prepare (wsConv c st sid incr) st.k).2.1,
                    k := (prepare (wsConv c st sid incr) st.k).2.2,
                    sent := s.sent + dataBytes (prepare (wsConv c st sid incr) st.k).2.1 }) with
                window := c.window - dataBytes (prepare (wsConv c st sid incr) st.k).2.1,
                connSent := c.connSent + dataBytes (prepare (wsConv c st sid incr) st.k).2.1 } sid
              = (findStream c sid).map (fun s => { s with
                    window := s.window - dataBytes (prepare (wsConv c st sid incr) st.k).2.1,
                    k := (prepare (wsConv c st sid incr) st.k).2.2,
                    sent := s.sent + dataBytes (prepare (wsConv c st sid incr) st.k).2.1 }) :=
            findStream_updStream c sid _ (fun _ => rfl)
          rw [hfu, hfind] at hst'
          simp only [Option.map_some, Option.some.injEq] at hst'
          subst hst'
          simp only; push_cast; omega
        · simp only [updStream]; push_cast; omega
    · exact ih _ (step_ledgerOk c o h0 hop.1) hop.2 e he sid incr fs hop' hfs hpos

/-- What the code really does for a stream toward an h2c backend: the `Stream`
    object keeps the window its *frontend* side gave it (`1 << 16` for HTTP/1
    frontends, `Consts.muxH1FrontStreamWindow`), while the backend granted its
    own SETTINGS_INITIAL_WINDOW_SIZE (here the RFC default 65535). As soon as the
    backend enlarges the connection window, one byte too many goes out. -/
theorem C14_never_exceeds_window_counterexample :
    let ops := [Op.settingsInitWin 3, Op.openLocal Consts.muxH1FrontStreamWindow,
                Op.push 1 (.chunk [1, 2, 3, 4, 5, 6, 7, 8, 9, 10]), Op.write 1 false]
    let c := run (Conn.new true) ops
    ∃ st, findStream c 1 = some st ∧ st.credit = 3 ∧ st.sent = 10 := by
  refine ⟨_, rfl, ?_⟩
  decide +kernel

/-- the same over-commit by a single byte against the RFC default window:
    `1 << 16` is one more than 65535 -/
theorem C14_never_exceeds_window_counterexample_default :
    ¬ OpenOk (Conn.new true) (Op.openLocal Consts.muxH1FrontStreamWindow) ∧
    ¬ OpenOk (Conn.new true) (Op.openLocal Consts.muxH1sFrontStreamWindow) := by decide

example : LedgerOk (Conn.new true) ∧ OpensOk (Conn.new true)
    [.openLocal 65535, .push 1 (.chunk [1, 2, 3]), .settingsInitWin 2, .write 1 false, .windowUpdate 1 5, .write 1 false] :=
  ⟨ledgerOk_new true, by decide⟩


/-! ## transfers keep moving -/

/-- Non-incremental pass on a live stream: the pass uses its budget exactly —
    it emits `min(budget, queued body bytes)` flow-controlled bytes (so ≥ 1 byte
    whenever the effective window is positive and something is queued), unless
    the stream is reset by the header-list budget in this very pass. -/
theorem C14_progress (c : Conv) (k : KState) (hm : 0 < c.mfs) (hi : c.incr = false) (ha : c.abort = false)
    (hd : k.dead = false) (hd' : (prepare c k).2.2.dead = false) :
    dataBytes (prepare c k).2.1 = min c.window.toNat (bodyLen k.blocks) ∧
    bodyLen (prepare c k).2.2.blocks = bodyLen k.blocks - min c.window.toNat (bodyLen k.blocks) := by
  obtain ⟨h1, h2⟩ := prepare_exact c k hm hi ha hd hd'
  exact ⟨h1, by omega⟩

/-- Any mode (including the RFC 9218 incremental yield): a pass that starts
    with a positive budget on a non-empty queue strictly shortens the queue
    (measure: queued bytes + 2 per block), or resets the stream. Hence a body of
    `n` bytes in `b` blocks is out after at most `n + 2b + 1` such passes. -/
theorem C14_progress_measure (c : Conv) (k : KState) (hm : 0 < c.mfs) (hw : 0 < c.window)
    (hd : k.dead = false) (hne : k.blocks ≠ []) :
    (prepare c k).2.2.dead = true ∨ fuelOf (prepare c k).2.2.blocks < fuelOf k.blocks :=
  prepare_measure c k hm hw hd hne

/-- Connection level: once the peer has granted enough credit on both levels
    (stream window and connection window cover what is queued), one
    `write_streams` iteration puts the whole body and its END_STREAM on the
    wire, in order (`events`), whatever happened before. -/
theorem C14_progress_complete (c : Conn) (sid : Nat) (st : Stream) (hf : findStream c sid = some st)
    (hmfs : 0 < c.peerMfs) (hd : st.k.dead = false)
    (hs : (bodyLen st.k.blocks : Int) ≤ st.window) (hc : (bodyLen st.k.blocks : Int) ≤ c.window) :
    ∀ st', findStream (writeStream c sid false).1 sid = some st' → st'.k.dead = false →
      bodyLen st'.k.blocks = 0 ∧ events (writeStream c sid false).2 ++ eventsB st'.k.blocks = eventsB st.k.blocks := by
  intro st' hst' hdead
  obtain ⟨e1, e2, _⟩ := writeStream_eq c sid false st hf
  rw [e2] at hst'
  have hfu := findStream_updStream c sid (fun s => { s with
      window := s.window - dataBytes (prepare (wsConv c st sid false) st.k).2.1,
      k := (prepare (wsConv c st sid false) st.k).2.2,
      sent := s.sent + dataBytes (prepare (wsConv c st sid false) st.k).2.1 }) (fun _ => rfl)
  have hst2 : findStream (updStream c sid (fun s => { s with
      window := s.window - dataBytes (prepare (wsConv c st sid false) st.k).2.1,
      k := (prepare (wsConv c st sid false) st.k).2.2,
      sent := s.sent + dataBytes (prepare (wsConv c st sid false) st.k).2.1 })) sid = some st' := hst'
  rw [hfu, hf] at hst2
  simp only [Option.map_some, Option.some.injEq] at hst2
  subst hst2
  simp only at hdead ⊢
  obtain ⟨h1, h2⟩ := prepare_exact (wsConv c st sid false) st.k hmfs rfl rfl hd hdead
  have hev := prepare_events (wsConv c st sid false) st.k hd hdead
  rw [e1]
  refine ⟨?_, hev⟩
  simp only [wsConv] at h1 h2 ⊢
  omega

example : dataBytes (prepare { mfs := 2, window := 3, sid := 1, out := [], incr := false, abort := false }
    ⟨[.chunk [1, 2, 3, 4, 5], .flags false true], false⟩).2.1 = 3 := by decide

/-! ## WINDOW_UPDATE -/

/-- `handle_window_update_frame`: a zero increment is an error (connection error
    on stream 0, stream error otherwise); an increment that would lift a window
    past 2^31-1 is a FLOW_CONTROL_ERROR of the same scope; otherwise the credit is
    added exactly, to that window only. -/
theorem C14_window_update_rules (c : Conn) (sid inc : Nat) (hi : inc ≤ i32Max) :
    (inc = 0 → sid = 0 → (windowUpdate c sid inc).2 = some .goawayProtocol ∧ (windowUpdate c sid inc).1.dead = true) ∧
    (inc = 0 → sid ≠ 0 → ∀ st, findStream c sid = some st →
        (windowUpdate c sid inc).2 = some (.rstProtocol sid) ∧ findStream (windowUpdate c sid inc).1 sid = none) ∧
    (0 < inc → sid = 0 → c.window + inc > i32Max →
        (windowUpdate c sid inc).2 = some .goawayFlowControl ∧ (windowUpdate c sid inc).1.dead = true) ∧
    (0 < inc → sid = 0 → c.window + inc ≤ i32Max →
        (windowUpdate c sid inc).2 = none ∧ (windowUpdate c sid inc).1.window = c.window + inc ∧
        (windowUpdate c sid inc).1.streams = c.streams) ∧
    (0 < inc → sid ≠ 0 → ∀ st, findStream c sid = some st → st.window + inc > i32Max →
        (windowUpdate c sid inc).2 = some (.rstFlowControl sid) ∧ findStream (windowUpdate c sid inc).1 sid = none) ∧
    (0 < inc → sid ≠ 0 → ∀ st, findStream c sid = some st → st.window + inc ≤ i32Max →
        (windowUpdate c sid inc).2 = none ∧ (windowUpdate c sid inc).1.window = c.window ∧
        (∃ st', findStream (windowUpdate c sid inc).1 sid = some st' ∧ st'.window = st.window + inc) ∧
        ∀ s ∈ (windowUpdate c sid inc).1.streams, s.sid ≠ sid → s ∈ c.streams) := by
  have hclamp : clampI32 inc = inc := by simp [clampI32, hi]
  have hrem : findStream (removeStream c sid) sid = none := by
    simp [findStream, removeStream, List.find?_eq_none]
  refine ⟨?_, ?_, ?_, ?_, ?_, ?_⟩
  · intro h0 hs; simp [windowUpdate, h0, hs]
  · intro h0 hs st hst; simp only [windowUpdate, h0, hs, hst, if_true, if_false]; exact ⟨by first | rfl | trivial, hrem⟩
  · intro hp hs ho
    have : ¬ c.window + (inc : Int) ≤ i32Max := by omega
    simp [windowUpdate, Nat.pos_iff_ne_zero.mp hp, hs, hclamp, this]
  · intro hp hs ho
    simp [windowUpdate, Nat.pos_iff_ne_zero.mp hp, hs, hclamp, ho]
  · intro hp hs st hst ho
    have : ¬ st.window + (inc : Int) ≤ i32Max := by omega
    simp only [windowUpdate, Nat.pos_iff_ne_zero.mp hp, hs, hclamp, hst, this, if_false]
    exact ⟨by first | rfl | trivial, hrem⟩
  · intro hp hs st hst ho
    simp only [windowUpdate, Nat.pos_iff_ne_zero.mp hp, hs, hclamp, hst, ho, if_true, if_false]
    refine ⟨by first | rfl | trivial, by first | rfl | trivial, ?_, ?_⟩
    · have hfu := findStream_updStream c sid
        (fun s => { s with window := s.window + (inc : Int), credit := s.credit + (inc : Int) }) (fun _ => rfl)
      rw [hst] at hfu
      exact ⟨_, hfu, rfl⟩
    · intro s hs' hne
      simp only [updStream, List.mem_map] at hs'
      obtain ⟨s0, hs0, rfl⟩ := hs'
      by_cases h : s0.sid = sid
      · simp [h] at hne
      · simpa [h] using hs0

example : (windowUpdate (run (Conn.new false) [.openPeer 1]) 1 7).2 = none := by decide

/-! ## SETTINGS_INITIAL_WINDOW_SIZE -/

/-- `update_initial_window_size`: a legal value shifts the send window of every
    open stream by exactly `new − old` (possibly below zero), leaves the
    connection window alone and becomes the initial window of later streams;
    it is refused iff the value exceeds 2^31-1 or some stream window would. -/
theorem C14_settings_delta (c : Conn) (v : Nat) :
    (∀ c', updateInitialWindow c v = some c' →
        c'.peerInitWin = v ∧ c'.window = c.window ∧
        c'.streams.map (·.window) = c.streams.map (fun s => s.window + ((v : Int) - c.peerInitWin)) ∧
        c'.streams.map (·.sid) = c.streams.map (·.sid)) ∧
    (updateInitialWindow c v = none ↔
        v > i32Max ∨ ∃ s ∈ c.streams, s.window + ((v : Int) - c.peerInitWin) > i32Max) := by
  refine ⟨?_, ?_⟩
  · intro c' h
    unfold updateInitialWindow at h
    split at h
    · cases h
    · split at h
      · injection h with h; subst h
        simp [initDelta, Function.comp_def]
      · cases h
  · unfold updateInitialWindow
    constructor
    · intro h
      split at h
      · next hv => exact Or.inl hv
      · split at h
        · cases h
        · next hv hall =>
          right
          have hall' : (c.streams.all fun s => decide (s.window + initDelta c v ≤ i32Max)) = false := by
            simpa using hall
          obtain ⟨s, hs, hgt⟩ := List.all_eq_false.mp hall'
          exact ⟨s, hs, by simp only [initDelta] at hgt; have := of_decide_eq_false (Bool.eq_false_iff.mpr hgt); omega⟩
    · intro h
      rcases h with hv | ⟨s, hs, hgt⟩
      · simp [hv]
      · split
        · rfl
        · have : (c.streams.all fun s => decide (s.window + initDelta c v ≤ i32Max)) = false :=
            List.all_eq_false.mpr ⟨s, hs, by simp only [initDelta]; intro hh; have := of_decide_eq_true hh; omega⟩
          simp [this]

/-- a new peer-initiated stream starts from the peer's current initial window -/
theorem C14_settings_delta_new_stream (c : Conn) (sid : Nat) (hv : c.peerInitWin ≤ i32Max) :
    ∃ st ∈ (openPeer c sid).streams, st.sid = sid ∧ st.window = c.peerInitWin := by
  refine ⟨{ sid, window := clampI32 c.peerInitWin, k := ⟨[], false⟩, sent := 0, credit := c.peerInitWin },
    by simp [openPeer], rfl, ?_⟩
  simp [clampI32, hv]

example : ((updateInitialWindow (run (Conn.new false) [.openPeer 1, .openPeer 3]) 10).map
    fun c => c.streams.map (·.window)) = some [-65525 + 65535, -65525 + 65535] := by decide

/-! ## stream identifiers and concurrency -/

/-- `next_stream_id` from an even watermark: the issued id fits 31 bits, has the
    parity of the role, is not below the watermark (strictly above it, hence
    non-zero, for the client role that sozu actually uses), and the new
    watermark is even and strictly above the issued id — so successive
    allocations are strictly increasing. -/
theorem C14_stream_ids_legal (last : Nat) (isClient : Bool) (i n : Nat)
    (h : nextStreamId last isClient = some (i, n)) (he : last % 2 = 0) :
    i ≤ Consts.h2StreamIdMax ∧ (i % 2 = 1 ↔ isClient = true) ∧ last ≤ i ∧ i < n ∧ n % 2 = 0 ∧
    (isClient = true → last < i ∧ 0 < i) ∧
    ∀ i' n', nextStreamId n isClient = some (i', n') → i < i' := by
  unfold nextStreamId at h
  split at h
  · cases h
  · split at h
    · cases h
    · next h1 h2 =>
      injection h with h
      injection h with e1 e2
      subst e1; subst e2
      refine ⟨by omega, ?_, ?_, ?_, by omega, ?_, ?_⟩
      · cases isClient <;> simp [issuedId] <;> omega
      · cases isClient <;> simp [issuedId]
      · cases isClient <;> simp [issuedId]
      · intro hc; subst hc; simp [issuedId]
      · intro i' n' h'
        unfold nextStreamId at h'
        split at h'
        · cases h'
        · split at h'
          · cases h'
          · injection h' with h'
            injection h' with e1 e2
            subst e1
            cases isClient <;> simp [issuedId] <;> omega

/-- the allocator refuses rather than leave the 31-bit space -/
theorem C14_stream_ids_exhaustion (last : Nat) (isClient : Bool) :
    (∃ p, nextStreamId last isClient = some p) → issuedId last isClient ≤ Consts.h2StreamIdMax := by
  intro ⟨p, h⟩
  unfold nextStreamId at h
  split at h
  · cases h
  · split at h
    · cases h
    · omega

example : nextStreamId 0 true = some (1, 2) ∧ nextStreamId 2 true = some (3, 4) ∧
    nextStreamId 2147483646 true = some (2147483647, 2147483648) ∧ nextStreamId 2147483648 true = none := by decide

/-- `start_stream` never opens more streams toward a peer than its current
    SETTINGS_MAX_CONCURRENT_STREAMS allows. -/
theorem C14_concurrent_streams (c : Conn) (w0 : Nat) (sid : Nat) (h : (openLocal c w0).2 = some sid) :
    (openLocal c w0).1.streams.length ≤ c.peerMaxStreams ∧
    (openLocal c w0).1.streams.length = c.streams.length + 1 := by
  unfold openLocal at h ⊢
  split
  · next hge => simp [hge] at h
  · next hlt =>
    split
    · next hn => simp [hlt, hn] at h
    · simp; omega

example : (openLocal { Conn.new true with peerMaxStreams := 1 } 65535).2 = some 1 ∧
    (openLocal (openLocal { Conn.new true with peerMaxStreams := 1 } 65535).1 65535).2 = none := by decide


/-! ## receiver side: sozu replenishes the windows it advertises -/

/-- Accounting identity, for every sequence of received DATA frames and flush
    points: each flow-controlled byte received on the connection is either
    already announced in a WINDOW_UPDATE on the wire, queued for the next flush,
    still under the half-window threshold, or was lost by the bounded queue
    (`lost`: entry dropped because `pending_window_updates` was full, or cut by
    the `i32::MAX` saturation). -/
theorem C14_wu_replenish_ledger (icw ms : Nat) (ops : List ROp) :
    let r := rrun (Recv.new icw ms) ops
    r.consumed = r.announced + sumK r.pending 0 + r.since + r.lost ∧ r.since ≤ icw / 2 := by
  have h := rrun_ok (Recv.new icw ms) ops (recvOk_new icw ms)
  obtain ⟨⟨_, hc, hs⟩, hi⟩ := h
  refine ⟨hc, ?_⟩
  rw [hi] at hs; exact hs

/-- Hence, as long as the bounded WINDOW_UPDATE queue never dropped or cut a
    connection-level credit, what the peer has consumed of sozu's connection
    window minus what sozu has announced or queued back never exceeds half the
    advertised window: the advertised window cannot starve.
    Partial: the hypothesis excludes the drop branch of `queue_window_update`. -/
theorem C14_wu_replenish_partial (icw ms : Nat) (ops : List ROp)
    (hl : (rrun (Recv.new icw ms) ops).lost = 0) :
    let r := rrun (Recv.new icw ms) ops
    r.consumed - (r.announced + sumK r.pending 0) ≤ icw / 2 ∧ icw / 2 ≤ icw := by
  have h := C14_wu_replenish_ledger icw ms ops
  simp only at h ⊢
  omega

/-- The excluded point is real in the model: with the queue full of stream
    entries, a connection-level credit is silently dropped and those bytes of
    the advertised connection window are never given back. -/
theorem C14_wu_replenish_counterexample :
    let r := rrun (Recv.new 65535 0) [.data 1 10 true false, .data 3 40000 false false, .flush [0, 1]]
    r.consumed = 40010 ∧ r.announced = 0 ∧ r.pending = [] ∧ r.since = 0 ∧ r.lost = 40010 := by
  decide +kernel

example : (rrun (Recv.new 65535 100) [.data 1 10 true false, .data 3 40000 false false, .flush [0, 1]]).lost = 0 ∧
    (rrun (Recv.new 65535 100) [.data 1 10 true false, .data 3 40000 false false, .flush [0, 1]]).announced = 40010 := by
  decide +kernel

/-- stream level (`handle_data_frame` queues `wire_payload_len` for the stream on
    every DATA frame that does not end it): the queue conserves credit — what
    is queued for the stream afterwards plus what the call reports as lost is
    what was queued before plus the increment; other streams are untouched. -/
theorem C14_wu_replenish_stream (r : Recv) (sid inc : Nat) (hn : (r.pending.map (·.1)).Nodup) :
    sumK (queueWu r sid inc).1.pending sid + (queueWu r sid inc).2 = sumK r.pending sid + inc ∧
    (∀ k, k ≠ sid → sumK (queueWu r sid inc).1.pending k = sumK r.pending k) ∧
    (r.pending.length < r.maxPending → sumK r.pending sid + inc ≤ i32Max → (queueWu r sid inc).2 = 0) := by
  obtain ⟨_, h2, h3, _⟩ := queueWu_spec r sid inc hn
  refine ⟨h2, h3, ?_⟩
  intro hlen hsum
  unfold queueWu
  cases hf : r.pending.find? (·.1 = sid) with
  | some p =>
    have h1 := (sumK_replace r.pending sid 0 p hn hf).1
    simp only; omega
  | none =>
    simp only [hlen, if_true]
    have := sumK_of_not_mem r.pending sid (find?_none_not_mem r.pending sid hf)
    omega

/-! ## HPACK table sizes -/

/-- the signal is never lost: while a change is pending it carries the encoder's
    size, and when nothing is pending the peer's decoder has been told the
    encoder's size -/
def HpInv (h : Hp) : Prop :=
  match h.pending with
  | some v => v = h.encSize
  | none => h.announced = h.encSize

theorem hpStep_inv (h : Hp) (op : HpOp) (hi : HpInv h) : HpInv (hpStep true h op).1 := by
  cases op with
  | settings v cap => simp [hpStep, HpInv]
  | pass headers =>
    unfold hpStep
    cases hp : h.pending with
    | none => simpa [HpInv, hp] using hi
    | some v =>
      have hv : v = h.encSize := by simpa [HpInv, hp] using hi
      cases headers
      · simpa [HpInv, hp] using hv
      · simp [HpInv, hv]

/-- Every change of SETTINGS_HEADER_TABLE_SIZE is signalled at the start of the
    next header block, whatever header-less passes (SETTINGS ACK, DATA-only,
    idle) intervene, and exactly once: for every schedule of SETTINGS and write
    passes, right after any pass that carried a header block the size announced
    on the wire equals the encoder's table size and nothing is pending; a pass
    with a header block emits an update iff one was pending, and that update is
    the encoder's current size (hence never above the peer's last setting). -/
theorem C14_hpack_size_update_signalled (ops : List HpOp) :
    HpInv (hpRun true Hp.init ops) ∧
    (let h := hpRun true Hp.init ops
     (hpStep true h (.pass true)).1.pending = none ∧
     (hpStep true h (.pass true)).1.announced = (hpStep true h (.pass true)).1.encSize ∧
     (hpStep true h (.pass true)).2 = h.pending ∧
     (hpStep true h (.pass false)).1 = h ∧ (hpStep true h (.pass false)).2 = none) := by
  have hinv : ∀ (ops : List HpOp) (h : Hp), HpInv h → HpInv (hpRun true h ops) := by
    intro ops
    induction ops with
    | nil => intro h hi; exact hi
    | cons o os ih => intro h hi; exact ih _ (hpStep_inv h o hi)
  have hi := hinv ops Hp.init (by simp [HpInv, Hp.init])
  refine ⟨hi, ?_⟩
  simp only
  cases hp : (hpRun true Hp.init ops).pending with
  | none =>
    have : (hpRun true Hp.init ops).announced = (hpRun true Hp.init ops).encSize := by simpa [HpInv, hp] using hi
    simp [hpStep, hp, this]
  | some v =>
    have hv : v = (hpRun true Hp.init ops).encSize := by simpa [HpInv, hp] using hi
    simp [hpStep, hp, hv]

/-- moving the signal into the per-pass converter without giving it back loses it
    in the first header-less pass: the peer keeps 4096 while the encoder uses 0 -/
theorem C14_hpack_size_update_signalled_needs_bookkeeping :
    let ops := [HpOp.settings 0 65536, .pass false, .pass true]
    (hpRun false Hp.init ops).announced = 4096 ∧ (hpRun false Hp.init ops).encSize = 0 ∧
    (hpRun true Hp.init ops).announced = 0 := by decide


end Sozu.H2Flow
