import Sozu.H2Flow.Runs
/-
Proofs of the property theorems stated in Props.lean (same statements, suffix `_pf`),
and the definitions those statements use.
-/
set_option linter.unusedSimpArgs false
set_option linter.unusedVariables false
namespace Sozu.H2Flow
open Sozu

theorem C14_frame_size_run_pf (c : Conn) (ops : List Op) :
    ∀ e ∈ trace c ops, ∀ fs, e.2.2.2 = Out.frames fs →
      ∀ f ∈ fs, f.payload.length ≤ max e.1.peerMfs 4 := by
  induction ops generalizing c with
  | nil => simp [trace]
  | cons o os ih =>
    intro e he fs hfs f hf
    simp only [trace, List.mem_cons] at he
    rcases he with rfl | he
    · obtain ⟨sid, incr, rfl, hd, rfl⟩ := step_frames c o fs hfs
      cases hfind : findStream c sid with
      | none => simp [writeStream, hfind] at hf
      | some st =>
        rw [(writeStream_eq c sid incr st hfind).1] at hf
        by_cases hr : f.ty = tyRst
        · have := prepare_rst_len (wsConv c st sid incr) st.k f hf hr
          simp only; omega
        · have := prepare_frame_size (wsConv c st sid incr) st.k f hf hr
          simp only [wsConv] at this ⊢
          omega
    · exact ih _ e he fs hfs f hf

theorem C14_never_exceeds_window_partial_pf (c : Conn) (ops : List Op) (h0 : LedgerOk c) (hop : OpensOk c ops) :
    ∀ e ∈ trace c ops, ∀ sid incr fs, e.2.1 = Op.write sid incr → e.2.2.2 = Out.frames fs → 0 < dataBytes fs →
      (∀ st, findStream e.2.2.1 sid = some st → (st.sent : Int) ≤ st.credit) ∧
      (e.2.2.1.connSent : Int) ≤ e.2.2.1.connCredit := by
  induction ops generalizing c with
  | nil => simp [trace]
  | cons o os ih =>
    intro e he sid incr fs hop' hfs hpos
    simp only [trace, List.mem_cons] at he
    rcases he with rfl | he
    · simp only at hop' hfs ⊢
      subst hop'
      obtain ⟨sid', incr', heq, hd, rfl⟩ := step_frames c _ fs hfs
      injection heq with h1 h2; subst h1; subst h2
      rw [step_write c sid incr hd]
      simp only
      cases hfind : findStream c sid with
      | none => simp [writeStream, hfind] at hpos
      | some st =>
        obtain ⟨e1, e2, e3⟩ := writeStream_eq c sid incr st hfind
        rw [e1] at hpos
        have hmem := findStream_mem c sid st hfind
        have hst := h0.2 st hmem.1
        have hc := h0.1
        rw [e2]
        refine ⟨?_, ?_⟩
        · intro st' hst'
          have hfu : findStream
              { updStream c sid (fun s => { s with
                    window := s.window - dataBytes (prepare (wsConv c st sid incr) st.k).2.1,
                    k := (prepare (wsConv c st sid incr) st.k).2.2,
                    sent := s.sent + dataBytes (prepare (wsConv c st sid incr) st.k).2.1 }) with
                window := c.window - dataBytes (prepare (wsConv c st sid incr) st.k).2.1,
                connSent := c.connSent + dataBytes (prepare (wsConv c st sid incr) st.k).2.1 } sid
              = (findStream c sid).map (fun s => { s with
                    window := s.window - dataBytes (prepare (wsConv c st sid incr) st.k).2.1,
                    k := (prepare (wsConv c st sid incr) st.k).2.2,
                    sent := s.sent + dataBytes (prepare (wsConv c st sid incr) st.k).2.1 }) :=
            findStream_updStream c sid _ (fun _ => rfl)
          rw [hfu, hfind] at hst'
          simp only [Option.map_some, Option.some.injEq] at hst'
          subst hst'
          simp only; push_cast; omega
        · simp only [updStream]; push_cast; omega
    · exact ih _ (step_ledgerOk c o h0 hop.1) hop.2 e he sid incr fs hop' hfs hpos

theorem C14_progress_complete_pf (c : Conn) (sid : Nat) (st : Stream) (hf : findStream c sid = some st)
    (hmfs : 0 < c.peerMfs) (hd : st.k.dead = false)
    (hs : (bodyLen st.k.blocks : Int) ≤ st.window) (hc : (bodyLen st.k.blocks : Int) ≤ c.window) :
    ∀ st', findStream (writeStream c sid false).1 sid = some st' → st'.k.dead = false →
      bodyLen st'.k.blocks = 0 ∧ events (writeStream c sid false).2 ++ eventsB st'.k.blocks = eventsB st.k.blocks := by
  intro st' hst' hdead
  obtain ⟨e1, e2, _⟩ := writeStream_eq c sid false st hf
  rw [e2] at hst'
  have hfu := findStream_updStream c sid (fun s => { s with
      window := s.window - dataBytes (prepare (wsConv c st sid false) st.k).2.1,
      k := (prepare (wsConv c st sid false) st.k).2.2,
      sent := s.sent + dataBytes (prepare (wsConv c st sid false) st.k).2.1 }) (fun _ => rfl)
  have hst2 : findStream (updStream c sid (fun s => { s with
      window := s.window - dataBytes (prepare (wsConv c st sid false) st.k).2.1,
      k := (prepare (wsConv c st sid false) st.k).2.2,
      sent := s.sent + dataBytes (prepare (wsConv c st sid false) st.k).2.1 })) sid = some st' := hst'
  rw [hfu, hf] at hst2
  simp only [Option.map_some, Option.some.injEq] at hst2
  subst hst2
  simp only at hdead ⊢
  obtain ⟨h1, h2⟩ := prepare_exact (wsConv c st sid false) st.k hmfs rfl rfl hd hdead
  have hev := prepare_events (wsConv c st sid false) st.k hd hdead
  rw [e1]
  refine ⟨?_, hev⟩
  simp only [wsConv] at h1 h2 ⊢
  omega

theorem C14_window_update_rules_pf (c : Conn) (sid inc : Nat) (hi : inc ≤ i32Max) :
    (inc = 0 → sid = 0 → (windowUpdate c sid inc).2 = some .goawayProtocol ∧ (windowUpdate c sid inc).1.dead = true) ∧
    (inc = 0 → sid ≠ 0 → ∀ st, findStream c sid = some st →
        (windowUpdate c sid inc).2 = some (.rstProtocol sid) ∧ findStream (windowUpdate c sid inc).1 sid = none) ∧
    (0 < inc → sid = 0 → c.window + inc > i32Max →
        (windowUpdate c sid inc).2 = some .goawayFlowControl ∧ (windowUpdate c sid inc).1.dead = true) ∧
    (0 < inc → sid = 0 → c.window + inc ≤ i32Max →
        (windowUpdate c sid inc).2 = none ∧ (windowUpdate c sid inc).1.window = c.window + inc ∧
        (windowUpdate c sid inc).1.streams = c.streams) ∧
    (0 < inc → sid ≠ 0 → ∀ st, findStream c sid = some st → st.window + inc > i32Max →
        (windowUpdate c sid inc).2 = some (.rstFlowControl sid) ∧ findStream (windowUpdate c sid inc).1 sid = none) ∧
    (0 < inc → sid ≠ 0 → ∀ st, findStream c sid = some st → st.window + inc ≤ i32Max →
        (windowUpdate c sid inc).2 = none ∧ (windowUpdate c sid inc).1.window = c.window ∧
        (∃ st', findStream (windowUpdate c sid inc).1 sid = some st' ∧ st'.window = st.window + inc) ∧
        ∀ s ∈ (windowUpdate c sid inc).1.streams, s.sid ≠ sid → s ∈ c.streams) := by
  have hclamp : clampI32 inc = inc := by simp [clampI32, hi]
  have hrem : findStream (removeStream c sid) sid = none := by
    simp [findStream, removeStream, List.find?_eq_none]
  refine ⟨?_, ?_, ?_, ?_, ?_, ?_⟩
  · intro h0 hs; simp [windowUpdate, h0, hs]
  · intro h0 hs st hst; simp only [windowUpdate, h0, hs, hst, if_true, if_false]; exact ⟨by first | rfl | trivial, hrem⟩
  · intro hp hs ho
    have : ¬ c.window + (inc : Int) ≤ i32Max := by omega
    simp [windowUpdate, Nat.pos_iff_ne_zero.mp hp, hs, hclamp, this]
  · intro hp hs ho
    simp [windowUpdate, Nat.pos_iff_ne_zero.mp hp, hs, hclamp, ho]
  · intro hp hs st hst ho
    have : ¬ st.window + (inc : Int) ≤ i32Max := by omega
    simp only [windowUpdate, Nat.pos_iff_ne_zero.mp hp, hs, hclamp, hst, this, if_false]
    exact ⟨by first | rfl | trivial, hrem⟩
  · intro hp hs st hst ho
    simp only [windowUpdate, Nat.pos_iff_ne_zero.mp hp, hs, hclamp, hst, ho, if_true, if_false]
    refine ⟨by first | rfl | trivial, by first | rfl | trivial, ?_, ?_⟩
    · have hfu := findStream_updStream c sid
        (fun s => { s with window := s.window + (inc : Int), credit := s.credit + (inc : Int) }) (fun _ => rfl)
      rw [hst] at hfu
      exact ⟨_, hfu, rfl⟩
    · intro s hs' hne
      simp only [updStream, List.mem_map] at hs'
      obtain ⟨s0, hs0, rfl⟩ := hs'
      by_cases h : s0.sid = sid
      · simp [h] at hne
      · simpa [h] using hs0

theorem C14_settings_delta_pf (c : Conn) (v : Nat) :
    (∀ c', updateInitialWindow c v = some c' →
        c'.peerInitWin = v ∧ c'.window = c.window ∧
        c'.streams.map (·.window) = c.streams.map (fun s => s.window + ((v : Int) - c.peerInitWin)) ∧
        c'.streams.map (·.sid) = c.streams.map (·.sid)) ∧
    (updateInitialWindow c v = none ↔
        v > i32Max ∨ ∃ s ∈ c.streams, s.window + ((v : Int) - c.peerInitWin) > i32Max) := by
  refine ⟨?_, ?_⟩
  · intro c' h
    unfold updateInitialWindow at h
    split at h
    · cases h
    · split at h
      · injection h with h; subst h
        simp [initDelta, Function.comp_def]
      · cases h
  · unfold updateInitialWindow
    constructor
    · intro h
      split at h
      · next hv => exact Or.inl hv
      · split at h
        · cases h
        · next hv hall =>
          right
          have hall' : (c.streams.all fun s => decide (s.window + initDelta c v ≤ i32Max)) = false := by
            simpa using hall
          obtain ⟨s, hs, hgt⟩ := List.all_eq_false.mp hall'
          exact ⟨s, hs, by simp only [initDelta] at hgt; have := of_decide_eq_false (Bool.eq_false_iff.mpr hgt); omega⟩
    · intro h
      rcases h with hv | ⟨s, hs, hgt⟩
      · simp [hv]
      · split
        · rfl
        · have : (c.streams.all fun s => decide (s.window + initDelta c v ≤ i32Max)) = false :=
            List.all_eq_false.mpr ⟨s, hs, by simp only [initDelta]; intro hh; have := of_decide_eq_true hh; omega⟩
          simp [this]

theorem C14_settings_delta_new_stream_pf (c : Conn) (sid : Nat) (hv : c.peerInitWin ≤ i32Max) :
    ∃ st ∈ (openPeer c sid).streams, st.sid = sid ∧ st.window = c.peerInitWin := by
  refine ⟨{ sid, window := clampI32 c.peerInitWin, k := ⟨[], false⟩, sent := 0, credit := c.peerInitWin },
    by simp [openPeer], rfl, ?_⟩
  simp [clampI32, hv]

theorem C14_stream_ids_legal_pf (last : Nat) (isClient : Bool) (i n : Nat)
    (h : nextStreamId last isClient = some (i, n)) (he : last % 2 = 0) :
    i ≤ Consts.h2StreamIdMax ∧ (i % 2 = 1 ↔ isClient = true) ∧ last ≤ i ∧ i < n ∧ n % 2 = 0 ∧
    (isClient = true → last < i ∧ 0 < i) ∧
    ∀ i' n', nextStreamId n isClient = some (i', n') → i < i' := by
  unfold nextStreamId at h
  split at h
  · cases h
  · split at h
    · cases h
    · next h1 h2 =>
      injection h with h
      injection h with e1 e2
      subst e1; subst e2
      refine ⟨by omega, ?_, ?_, ?_, by omega, ?_, ?_⟩
      · cases isClient <;> simp [issuedId] <;> omega
      · cases isClient <;> simp [issuedId]
      · cases isClient <;> simp [issuedId]
      · intro hc; subst hc; simp [issuedId]
      · intro i' n' h'
        unfold nextStreamId at h'
        split at h'
        · cases h'
        · split at h'
          · cases h'
          · injection h' with h'
            injection h' with e1 e2
            subst e1
            cases isClient <;> simp [issuedId] <;> omega

theorem C14_stream_ids_exhaustion_pf (last : Nat) (isClient : Bool) :
    (∃ p, nextStreamId last isClient = some p) → issuedId last isClient ≤ Consts.h2StreamIdMax := by
  intro ⟨p, h⟩
  unfold nextStreamId at h
  split at h
  · cases h
  · split at h
    · cases h
    · omega

theorem C14_concurrent_streams_pf (c : Conn) (w0 : Nat) (sid : Nat) (h : (openLocal c w0).2 = some sid) :
    (openLocal c w0).1.streams.length ≤ c.peerMaxStreams ∧
    (openLocal c w0).1.streams.length = c.streams.length + 1 := by
  unfold openLocal at h ⊢
  split
  · next hge => simp [hge] at h
  · next hlt =>
    split
    · next hn => simp [hlt, hn] at h
    · simp; omega

theorem C14_wu_replenish_ledger_pf (icw ms : Nat) (ops : List ROp) :
    let r := rrun (Recv.new icw ms) ops
    r.consumed = r.announced + sumK r.pending 0 + r.since + r.lost ∧ r.since ≤ icw / 2 := by
  have h := rrun_ok (Recv.new icw ms) ops (recvOk_new icw ms)
  obtain ⟨⟨_, hc, hs⟩, hi⟩ := h
  refine ⟨hc, ?_⟩
  rw [hi] at hs; exact hs

theorem C14_wu_replenish_partial_pf (icw ms : Nat) (ops : List ROp)
    (hl : (rrun (Recv.new icw ms) ops).lost = 0) :
    let r := rrun (Recv.new icw ms) ops
    r.consumed - (r.announced + sumK r.pending 0) ≤ icw / 2 ∧ icw / 2 ≤ icw := by
  have h := C14_wu_replenish_ledger_pf icw ms ops
  simp only at h ⊢
  omega

theorem C14_wu_replenish_stream_pf (r : Recv) (sid inc : Nat) (hn : (r.pending.map (·.1)).Nodup) :
    sumK (queueWu r sid inc).1.pending sid + (queueWu r sid inc).2 = sumK r.pending sid + inc ∧
    (∀ k, k ≠ sid → sumK (queueWu r sid inc).1.pending k = sumK r.pending k) ∧
    (r.pending.length < r.maxPending → sumK r.pending sid + inc ≤ i32Max → (queueWu r sid inc).2 = 0) := by
  obtain ⟨_, h2, h3, _⟩ := queueWu_spec r sid inc hn
  refine ⟨h2, h3, ?_⟩
  intro hlen hsum
  unfold queueWu
  cases hf : r.pending.find? (·.1 = sid) with
  | some p =>
    have h1 := (sumK_replace r.pending sid 0 p hn hf).1
    simp only; omega
  | none =>
    simp only [hlen, if_true]
    have := sumK_of_not_mem r.pending sid (find?_none_not_mem r.pending sid hf)
    omega

/-- the signal is never lost: while a change is pending it carries the encoder's
    size, and when nothing is pending the peer's decoder has been told the
    encoder's size -/
def HpInv (h : Hp) : Prop :=
  match h.pending with
  | some v => v = h.encSize
  | none => h.announced = h.encSize

theorem hpStep_inv (h : Hp) (op : HpOp) (hi : HpInv h) : HpInv (hpStep true h op).1 := by
  cases op with
  | settings v cap => simp [hpStep, HpInv]
  | pass headers =>
    unfold hpStep
    cases hp : h.pending with
    | none => simpa [HpInv, hp] using hi
    | some v =>
      have hv : v = h.encSize := by simpa [HpInv, hp] using hi
      cases headers
      · simpa [HpInv, hp] using hv
      · simp [HpInv, hv]

theorem C14_hpack_size_update_signalled_pf (ops : List HpOp) :
    HpInv (hpRun true Hp.init ops) ∧
    (let h := hpRun true Hp.init ops
     (hpStep true h (.pass true)).1.pending = none ∧
     (hpStep true h (.pass true)).1.announced = (hpStep true h (.pass true)).1.encSize ∧
     (hpStep true h (.pass true)).2 = h.pending ∧
     (hpStep true h (.pass false)).1 = h ∧ (hpStep true h (.pass false)).2 = none) := by
  have hinv : ∀ (ops : List HpOp) (h : Hp), HpInv h → HpInv (hpRun true h ops) := by
    intro ops
    induction ops with
    | nil => intro h hi; exact hi
    | cons o os ih => intro h hi; exact ih _ (hpStep_inv h o hi)
  have hi := hinv ops Hp.init (by simp [HpInv, Hp.init])
  refine ⟨hi, ?_⟩
  simp only
  cases hp : (hpRun true Hp.init ops).pending with
  | none =>
    have : (hpRun true Hp.init ops).announced = (hpRun true Hp.init ops).encSize := by simpa [HpInv, hp] using hi
    simp [hpStep, hp, this]
  | some v =>
    have hv : v = (hpRun true Hp.init ops).encSize := by simpa [HpInv, hp] using hi
    simp [hpStep, hp, hv]

/-! ### DATA on a stream sozu has already closed, reset or refused -/

theorem rrun_append (r : Recv) (a b : List ROp) : rrun r (a ++ b) = rrun (rrun r a) b := by
  simp [rrun, List.foldl_append]

theorem wu_replenish_closed_stream (icw ms : Nat) (ops : List ROp) (sid len : Nat) (es : Bool) :
    let r := rrun (Recv.new icw ms) ops
    let r' := rstep r (.data sid len false es)
    r'.consumed = r.consumed + len ∧
    r'.consumed = r'.announced + sumK r'.pending 0 + r'.since + r'.lost ∧ r'.since ≤ icw / 2 := by
  have h := C14_wu_replenish_ledger_pf icw ms (ops ++ [.data sid len false es])
  simp only [rrun_append] at h
  refine ⟨?_, h⟩
  simp only [rstep, recvData, Bool.false_and, Bool.false_eq_true, if_false]
  split <;> simp [queueWu] <;> (try split) <;> (try split) <;> simp

/-- the variant in which such a payload is skipped without going through
    `handle_data_frame`: the peer has used the window, sozu has not counted it -/
def discardData (r : Recv) (len : Nat) : Recv := { r with consumed := r.consumed + len }

end Sozu.H2Flow
