import Sozu.Worker.Lemmas
/-
C08 — workers answer each command exactly once and converge on the main
process' view. Only property statements (`C08_*`) and their non-vacuity
examples live here.

Reading guide. `respond k e` is the list of statuses that reach the command
channel for one request of kind `k`, for *every* combination `e` of results of
the code `notify`/`notify_proxys` call into. The destination table, the list of
kinds `ConfigState::dispatch` accepts and the scatter sites of the main process
are re-extracted from the source text on every run (`Sozu.Consts.wk*`).
-/
set_option linter.unusedSimpArgs false
set_option linter.unusedVariables false
namespace Sozu.Worker

/-! ### the model covers the protocol -/

/-- every `RequestType` variant of the generated protobuf enum is a `Kind`, in order -/
theorem C08_kinds_cover_protocol :
    (Kind.all.dropLast).map Kind.nameBytes = Consts.wkAllVariants := by decide +kernel

/-- the fold of `notify_proxys` answers Failure iff some destined proxy failed -/
theorem C08_fanout_failure_iff (d : Dest) (r : ProxyResults) :
    aggregate d r = some .failure ↔ someDestinedFailed d r :=
  aggregate_failure_iff d r

example : someDestinedFailed ⟨true, true, false, false⟩ ⟨.ok, .failure, .failure, .ok⟩ := by decide
example : ¬ someDestinedFailed ⟨true, false, false, false⟩ ⟨.ok, .failure, .failure, .failure⟩ := by decide

/-! ### exactly one final status -/

/-- **Exactly one final status** for EVERY request kind (all 55 `RequestType`
    variants and a request without type), whatever the proxies, the listener
    helpers and the worker-level handlers answer. Hypotheses = what the callees
    do as coded: proxies answer Processing to the stop verbs and only to them
    (unless a socket deregistration fails, see `_2_finals`). The one genuinely
    excluded point: a SoftStop is answered OK only when the session count reaches
    `base_sessions_count` (`e.drained`) — counterexamples below. -/
theorem C08_exactly_one_final_partial (k : Kind) (e : Env)
    (hproc : k ≠ .softStop → k ≠ .hardStop → NoProcessing e.proxies)
    (hstop : k = .softStop ∨ k = .hardStop → aggregate (dests k) e.proxies = some .processing)
    (hsoft : k = .softStop → e.drained = true) :
    (finals (respond k e)).length = 1 := by
  cases k
  case hardStop =>
    have ha := hstop (Or.inr rfl)
    show (finals ((fanout .hardStop e ++ listenerTail .hardStop e) ++ [.ok])).length = 1
    simp [fanout, ha, listenerTail, finals]
  case softStop =>
    have ha := hstop (Or.inl rfl)
    have hd := hsoft rfl
    show (finals ((fanout .softStop e ++ listenerTail .softStop e) ++ (if e.drained then [.ok] else []))).length = 1
    simp [fanout, ha, hd, listenerTail, finals]
  case returnListenSockets => simp [respond, finals_st]
  case configureMetrics => simp [respond, notify, finals_st]
  case queryMetrics => simp [respond, notify, finals_st]
  case setMetricDetail => simp [respond, notify, finals_st]
  case logging => simp [respond, notify, finals]
  case queryClustersHashes => simp [respond, notify, finals]
  case setMaxConnectionsPerIp => simp [respond, notify, finals]
  case queryMaxConnectionsPerIp => simp [respond, notify, finals]
  case queryClustersByDomain => simp [respond, notify, finals]
  case queryClusterById => simp [respond, notify, finals]
  case queryCertificatesFromWorkers =>
    have hp := hproc (by decide) (by decide)
    show (finals (if e.fingerprint then [st e.workerOk] else
            fanout .queryCertificatesFromWorkers e ++ listenerTail .queryCertificatesFromWorkers e)).length = 1
    cases hf : e.fingerprint
    · simp only [Bool.false_eq_true, if_false]
      rw [generic_finals _ e hp]; decide
    · simp [finals_st]
  case addCluster =>
    have hp := hproc (by decide) (by decide)
    show (finals (if e.hcValid then fanout .addCluster e ++ listenerTail .addCluster e else [.failure])).length = 1
    cases hv : e.hcValid
    · simp [finals]
    · simp only [if_true]
      rw [generic_finals _ e hp]; decide
  case setHealthCheck =>
    show (finals (if e.hcValid then [.ok] else [.failure])).length = 1
    cases e.hcValid <;> simp [finals]
  case removeHealthCheck => simp [respond, notify, notifyProxys, finals]
  case addBackend => simp [respond, notify, notifyProxys, finals]
  case removeBackend => simp [respond, notify, notifyProxys, finals]
  all_goals
    (have hp := hproc (by decide) (by decide)
     show (finals (fanout _ e ++ listenerTail _ e)).length = 1
     rw [generic_finals _ e hp]; decide)

/-- the hypotheses are satisfiable: a RemoveListener whose TCP proxy fails -/
example : (finals (respond .removeListener
    ⟨true, false, true, ⟨.ok, .ok, .failure, .ok⟩, true, some .tcp, false⟩)) = [.failure] := by decide

/-- regression (F16, repaired in /repo 2ea09e9): request kinds nothing handles —
    `CountRequests`, which `load_state` can forward, the main-only kinds and a
    request without type — are refused with one Failure instead of being ignored -/
example (e : Env) : respond .countRequests e = [.failure] ∧ respond .none e = [.failure] ∧
    respond .listWorkers e = [.failure] := by
  refine ⟨?_, ?_, ?_⟩
  · show fanout .countRequests e ++ listenerTail .countRequests e = [.failure]
    rw [fanout_nil _ e (by decide)]
    simp [listenerTail, aggregate_none (dests .countRequests) e.proxies (by decide)]
  · show fanout .none e ++ listenerTail .none e = [.failure]
    rw [fanout_nil _ e (by decide)]
    simp [listenerTail, aggregate_none (dests .none) e.proxies (by decide)]
  · show fanout .listWorkers e ++ listenerTail .listWorkers e = [.failure]
    rw [fanout_nil _ e (by decide)]
    simp [listenerTail, aggregate_none (dests .listWorkers) e.proxies (by decide)]

/-- no request is left without any response (SoftStop: at least its Processing) -/
theorem C08_never_unanswered (k : Kind) (e : Env)
    (hproc : k ≠ .softStop → k ≠ .hardStop → NoProcessing e.proxies)
    (hstop : k = .softStop ∨ k = .hardStop → aggregate (dests k) e.proxies = some .processing) :
    respond k e ≠ [] := by
  by_cases hs : k = .softStop
  · subst hs
    have ha := hstop (Or.inl rfl)
    show (fanout .softStop e ++ listenerTail .softStop e) ++ (if e.drained then [.ok] else []) ≠ []
    simp [fanout, ha]
  · intro h
    have := C08_exactly_one_final_partial k e hproc hstop (fun h' => absurd h' hs)
    rw [h] at this
    simp [finals] at this

/-- excluded point: a SoftStop whose session count never reaches
    `base_sessions_count` is never answered -/
theorem C08_exactly_one_final_counterexample_undrained :
    finals (respond .softStop ⟨true, false, true, stopResults false, true, none, false⟩) = [] := by
  decide

/-- ... and such a state is reached by a command sequence the main process
    accepts entirely: add and activate an HTTP listener, remove it without
    deactivating it first (`base_sessions_count` drops, the listener's slab
    placeholder stays), SoftStop. -/
theorem C08_exactly_one_final_counterexample_reachable :
    let ops := [Op.addListener .http 0 true, .activate (some .http) 0,
                .removeListener (some .http) 0, .plain .softStop true]
    forwarded View.empty ops = ops ∧
    (run WState.init ops).2.map (·.resp) = [[.ok], [.ok], [.ok], [.processing]] := by
  decide

/-- the same with a RemoveListener for an address that has no listener: the
    HTTP proxy even answers OK, and `base_sessions_count` is decremented all the
    same (a main process refuses that command; a worker does not) -/
theorem C08_exactly_one_final_counterexample_bogus_rm :
    (run WState.init [Op.addListener .http 0 true, .removeListener (some .http) 7,
        .plain .softStop true]).2.map (·.resp) = [[.ok], [.ok], [.processing]] := by
  decide

/-- the well-ordered sequence (deactivate, then remove) is answered -/
example : (run WState.init [Op.addListener .http 0 true, .activate (some .http) 0,
    .deactivate (some .http) 0, .removeListener (some .http) 0, .plain .softStop true]).2.map (·.resp)
    = [[.ok], [.ok], [.ok], [.ok], [.processing, .ok]] := by decide

/-- as coded, a stop verb whose proxy reports a failure (a socket deregistration
    error) gets that Failure and the OK — two final statuses -/
theorem C08_exactly_one_final_counterexample_2_finals :
    finals (respond .softStop
      ⟨true, false, true, ⟨.failure, .processing, .processing, .processing⟩, true, none, true⟩)
      = [.failure, .ok] ∧
    finals (respond .hardStop
      ⟨true, false, true, ⟨.failure, .processing, .ok, .ok⟩, true, none, false⟩)
      = [.failure, .ok] := by decide

/-- the admissibility hypotheses of `C08_exactly_one_final_partial` for one request -/
def Admissible (k : Kind) (e : Env) : Prop :=
  (k ≠ .softStop → k ≠ .hardStop → NoProcessing e.proxies) ∧
  (k = .softStop ∨ k = .hardStop → aggregate (dests k) e.proxies = some .processing) ∧
  (k = .softStop → e.drained = true)

/-- **Batches.** Every request the worker reads in one go — up to and including a
    HardStop, behind which nothing is read any more — gets exactly one final
    status (no hypothesis on the position of the HardStop: its handler flushes
    the queued responses before its own OK). -/
theorem C08_batch_one_final (rs : List (Kind × Env))
    (hok : ∀ r ∈ rs, Admissible r.1 r.2) :
    ∀ l ∈ batchDelivered rs, (finals l).length = 1 := by
  intro l hl
  have key : ∃ r ∈ rs, l = respond r.1 r.2 := by
    unfold batchDelivered at hl
    split at hl
    · simp only [List.mem_map] at hl
      obtain ⟨r, hr, rfl⟩ := hl
      exact ⟨r, List.mem_of_mem_take hr, rfl⟩
    · simp only [List.mem_map] at hl
      obtain ⟨r, hr, rfl⟩ := hl
      exact ⟨r, hr, rfl⟩
  obtain ⟨r, hr, rfl⟩ := key
  obtain ⟨h1, h2, h3⟩ := hok r hr
  exact C08_exactly_one_final_partial r.1 r.2 h1 h2 h3

/-- regression (repaired in /repo de8b744): a request read in the same batch as a
    HardStop that follows it keeps its answer -/
example :
    batchDelivered [(.status, ⟨true, false, true, allOk, true, none, false⟩),
                    (.hardStop, ⟨true, false, true, stopResults true, true, none, false⟩),
                    (.status, ⟨true, false, true, allOk, true, none, false⟩)]
      = [[.ok], [.processing, .ok]] := by decide

/-! ### the final status is Failure iff ... (as coded) -/

/-- the condition under which the code answers Failure -/
def failureCond (k : Kind) (e : Env) : Prop :=
  match k with
  | .configureMetrics | .queryMetrics | .setMetricDetail | .returnListenSockets => e.workerOk = false
  | .queryCertificatesFromWorkers =>
    if e.fingerprint then e.workerOk = false else someDestinedFailed (dests k) e.proxies
  | .addCluster => e.hcValid = false ∨ someDestinedFailed (dests k) e.proxies
  | .setHealthCheck => e.hcValid = false
  | .addHttpListener | .addHttpsListener | .addTcpListener | .addUdpListener
  | .updateHttpListener | .updateHttpsListener | .updateTcpListener | .updateUdpListener
  | .activateListener | .deactivateListener => e.listenerOk = false
  | .removeListener =>
    match e.listenerType with
    | some t => proxyOf t e.proxies = .failure
    | none => True
  | .logging | .queryClustersHashes | .queryClusterById | .queryClustersByDomain
  | .setMaxConnectionsPerIp | .queryMaxConnectionsPerIp | .removeHealthCheck | .addBackend
  | .removeBackend => False
  -- fan-out kinds: a destined proxy failed; kinds nothing handles: always refused
  | _ => someDestinedFailed (dests k) e.proxies ∨ hasDest (dests k) = false

theorem st_eq_failure (b : Bool) : st b = .failure ↔ b = false := by cases b <;> simp [st]

/-- fan-out kinds: the single response is Failure iff a destined proxy failed -/
theorem fanout_failure (k : Kind) (e : Env) (hd : hasDest (dests k) = true)
    (hp : NoProcessing e.proxies) :
    finals (fanout k e) = [.failure] ↔ someDestinedFailed (dests k) e.proxies := by
  rw [← aggregate_failure_iff]
  unfold fanout
  have hs := aggregate_isSome (dests k) e.proxies
  rw [hd] at hs
  match h : aggregate (dests k) e.proxies with
  | some s =>
    have hn := aggregate_noProcessing _ _ s hp h
    simp [finals_single, hn]
  | none => simp [h] at hs

theorem generic_failure_dest (k : Kind) (e : Env) (hd : hasDest (dests k) = true)
    (hp : NoProcessing e.proxies)
    (ht : listenerTail k e = if (aggregate (dests k) e.proxies).isSome then [] else [.failure]) :
    finals (fanout k e ++ listenerTail k e) = [.failure] ↔
      (someDestinedFailed (dests k) e.proxies ∨ hasDest (dests k) = false) := by
  have hs := aggregate_isSome (dests k) e.proxies
  rw [hd] at hs
  rw [ht, hs]
  simp only [if_true, List.append_nil, hd, Bool.true_eq_false, or_false]
  exact fanout_failure k e hd hp

theorem generic_failure_nodest (k : Kind) (e : Env) (hd : hasDest (dests k) = false)
    (ht : listenerTail k e = if (aggregate (dests k) e.proxies).isSome then [] else [.failure]) :
    finals (fanout k e ++ listenerTail k e) = [.failure] ↔
      (someDestinedFailed (dests k) e.proxies ∨ hasDest (dests k) = false) := by
  rw [fanout_nil k e hd, ht, aggregate_none _ _ hd]
  simp [finals, hd]

/-- **The final status is Failure iff** the worker-level handler failed / the
    health check is invalid / the listener step failed / some destined proxy
    failed / nothing handles the request kind — per kind, as coded
    (`failureCond`). The stop verbs are covered by `C08_exactly_one_final_partial`
    (their only final status is the OK). -/
theorem C08_final_is_failure_iff (k : Kind) (e : Env)
    (hk : k ≠ .softStop) (hk' : k ≠ .hardStop) (hp : NoProcessing e.proxies) :
    finals (respond k e) = [.failure] ↔ failureCond k e := by
  cases k
  case softStop => exact absurd rfl hk
  case hardStop => exact absurd rfl hk'
  case returnListenSockets => simp [respond, finals_st, failureCond, st_eq_failure]
  case configureMetrics => simp [respond, notify, finals_st, failureCond, st_eq_failure]
  case queryMetrics => simp [respond, notify, finals_st, failureCond, st_eq_failure]
  case setMetricDetail => simp [respond, notify, finals_st, failureCond, st_eq_failure]
  case logging => simp [respond, notify, finals, failureCond]
  case queryClustersHashes => simp [respond, notify, finals, failureCond]
  case queryClusterById => simp [respond, notify, finals, failureCond]
  case setMaxConnectionsPerIp => simp [respond, notify, finals, failureCond]
  case queryMaxConnectionsPerIp => simp [respond, notify, finals, failureCond]
  case queryClustersByDomain => simp [respond, notify, finals, failureCond]
  case removeHealthCheck => simp [respond, notify, notifyProxys, finals, failureCond]
  case addBackend => simp [respond, notify, notifyProxys, finals, failureCond]
  case removeBackend => simp [respond, notify, notifyProxys, finals, failureCond]
  case setHealthCheck =>
    show finals (if e.hcValid then [.ok] else [.failure]) = [.failure] ↔ e.hcValid = false
    cases e.hcValid <;> simp [finals]
  case queryCertificatesFromWorkers =>
    show finals (if e.fingerprint then [st e.workerOk] else
          fanout .queryCertificatesFromWorkers e ++ listenerTail .queryCertificatesFromWorkers e) = [.failure]
        ↔ (if e.fingerprint then e.workerOk = false else someDestinedFailed (dests .queryCertificatesFromWorkers) e.proxies)
    cases hf : e.fingerprint
    · simp only [Bool.false_eq_true, if_false]
      have := generic_failure_dest .queryCertificatesFromWorkers e (by decide) hp rfl
      simpa [show hasDest (dests .queryCertificatesFromWorkers) = true by decide] using this
    · simp [finals_st, st_eq_failure]
  case addCluster =>
    show finals (if e.hcValid then fanout .addCluster e ++ listenerTail .addCluster e else [.failure]) = [.failure]
        ↔ (e.hcValid = false ∨ someDestinedFailed (dests .addCluster) e.proxies)
    cases hv : e.hcValid
    · simp [finals]
    · simp only [if_true, Bool.true_eq_false, false_or]
      have := generic_failure_dest .addCluster e (by decide) hp rfl
      simpa [show hasDest (dests .addCluster) = true by decide] using this
  case removeListener =>
    show finals (fanout .removeListener e ++ listenerTail .removeListener e) = [.failure] ↔ _
    rw [fanout_nil _ e (by decide)]
    simp only [List.nil_append, listenerTail, failureCond]
    cases h : e.listenerType with
    | none => simp [finals]
    | some t =>
      have := proxyOf_noProcessing t e.proxies hp
      simp [finals_single, this]
  all_goals first
    | (show finals (fanout _ e ++ listenerTail _ e) = [.failure] ↔ _
       rw [fanout_nil _ e (by decide)]
       simp [listenerTail, failureCond, finals_st, st_eq_failure]
       done)
    | exact generic_failure_dest _ e (by decide) hp rfl
    | exact generic_failure_nodest _ e (by decide) rfl

example : failureCond .addHttpFrontend ⟨true, false, true, ⟨.failure, .ok, .ok, .ok⟩, true, none, false⟩ := by
  show someDestinedFailed _ _ ∨ _
  left; decide

/-- "Failure iff the target is missing" is *not* what the code does: removing a
    backend nobody added, and removing an HTTP listener that does not exist,
    are answered OK (the main process' state refuses both) -/
theorem C08_final_is_failure_iff_counterexample :
    (step WState.init (.removeBackend 0 0 0)).2.resp = [.ok] ∧
    (step WState.init (.removeBackend 0 0 0)).2.accepted = false ∧
    (step WState.init (.removeListener (some .http) 0)).2.resp = [.ok] ∧
    (step WState.init (.removeListener (some .http) 0)).2.accepted = false ∧
    (step WState.init (.removeListener (some .tcp) 0)).2.resp = [.failure] := by
  decide

/-! ### the worker's view converges on the main process' view -/

theorem dispatchView_rejected (v : View) (op : Op) (h : (dispatchView v op).2 = false) :
    (dispatchView v op).1 = v := by
  cases op <;> simp only [dispatchView] at h ⊢ <;> (repeat' split at h) <;> (repeat' split) <;> simp_all

theorem dispatchView_unreached (v : View) (op : Op)
    (h : reachesDispatch op.kind (fingerprintOf op) = false) : (dispatchView v op).1 = v := by
  cases op with
  | plain k ok => simp [dispatchView]
  | queryCerts f' found => simp [dispatchView]
  | queryCluster c => simp [dispatchView]
  | setHealthCheck c valid => simp [dispatchView]
  | removeHealthCheck c => simp [dispatchView]
  | updateListener t a valid => simp [dispatchView]
  | removeCert a hv => simp [dispatchView]
  | replaceCert a hv nv => simp [dispatchView]
  | addListener t a valid => cases t <;> simp [reachesDispatch, Op.kind] at h
  | addFront tls f' b1 b2 b3 b4 => cases tls <;> simp [reachesDispatch, Op.kind] at h
  | removeFront tls f' b1 b2 b3 => cases tls <;> simp [reachesDispatch, Op.kind] at h
  | addL4Front udp a c => cases udp <;> simp [reachesDispatch, Op.kind] at h
  | removeL4Front udp a c => cases udp <;> simp [reachesDispatch, Op.kind] at h
  | addCluster c hv tv kn => simp [reachesDispatch, Op.kind] at h
  | removeCluster c => simp [reachesDispatch, Op.kind] at h
  | addBackend c b a => simp [reachesDispatch, Op.kind] at h
  | removeBackend c b a => simp [reachesDispatch, Op.kind] at h
  | activate t a => simp [reachesDispatch, Op.kind] at h
  | deactivate t a => simp [reachesDispatch, Op.kind] at h
  | removeListener t a => simp [reachesDispatch, Op.kind] at h
  | addCert a valid => simp [reachesDispatch, Op.kind] at h

/-- one step of a running worker updates its `config_state` with the same
    `dispatch` the main process uses, whatever the proxies answered -/
theorem C08_step_view (s : WState) (op : Op) (hs : s.stopped = false) :
    (step s op).1.view = workerViewStep s.view op := by
  simp only [step, hs, workerViewStep]
  cases h : dispatchView s.view op
  simp

theorem step_stopped (s : WState) (op : Op) (hs : s.stopped = false)
    (hk : op.kind ≠ .softStop ∧ op.kind ≠ .hardStop) : (step s op).1.stopped = false := by
  simp only [step, hs]
  cases h : dispatchView s.view op
  simp [hk.1, hk.2]

/-- **View convergence.** Start a worker and a main process from the same view;
    let the main process dispatch any command sequence on its state and forward
    the commands it accepted (no stop verb: a stopped worker has no view any
    more). Whatever the proxies answered, the worker's queryable view equals the
    main process' view. -/
theorem C08_view_converges (ops : List Op) (s : WState) (hs : s.stopped = false)
    (hk : ∀ op ∈ ops, op.kind ≠ .softStop ∧ op.kind ≠ .hardStop) :
    (runState s (forwarded s.view ops)).view = masterRun s.view ops := by
  induction ops generalizing s with
  | nil => simp [forwarded, runState, masterRun]
  | cons op rest ih =>
    have hk0 := hk op (by simp)
    have hkr : ∀ o ∈ rest, o.kind ≠ .softStop ∧ o.kind ≠ .hardStop := fun o ho => hk o (by simp [ho])
    simp only [forwarded, masterRun, List.foldl_cons]
    by_cases hacc : (dispatchView s.view op).2 = true
    · simp only [hacc, if_true]
      simp only [runState, List.foldl_cons]
      have hview : (step s op).1.view = (dispatchView s.view op).1 := by
        rw [C08_step_view s op hs]
        unfold workerViewStep
        by_cases hr : reachesDispatch op.kind (fingerprintOf op) = true
        · simp [hr]
        · have hr' : reachesDispatch op.kind (fingerprintOf op) = false := by simpa using hr
          simp only [hr', Bool.false_eq_true, if_false]
          exact (dispatchView_unreached s.view op hr').symm
      have hst := step_stopped s op hs hk0
      have := ih (step s op).1 hst hkr
      rw [hview] at this
      simpa [runState, masterRun] using this
    · -- refused by the main process: not forwarded, and its state is unchanged
      have hacc' : (dispatchView s.view op).2 = false := by simpa using hacc
      simp only [hacc', Bool.false_eq_true, if_false]
      rw [dispatchView_rejected s.view op hacc']
      have := ih s hs hkr
      simpa [masterRun] using this

/-- non-vacuity: a sequence with accepted and refused commands -/
example :
    let ops := [Op.addCluster 1 true true 0, .removeBackend 1 0 0, .addBackend 1 0 0,
                .addFront false ⟨0, 7, 1⟩ false false false false, .plain .status true]
    forwarded View.empty ops = [Op.addCluster 1 true true 0, .addBackend 1 0 0,
                .addFront false ⟨0, 7, 1⟩ false false false false, .plain .status true] ∧
    (runState WState.init (forwarded View.empty ops)).view.httpFronts = [⟨0, 7, 1⟩] := by decide

/-- the main process forwards what its state accepted even if the worker then
    answers Failure, and the worker's view takes the command all the same: -/
theorem C08_view_matches_behaviour_counterexample :
    let ops := [Op.addCluster 0 true true 0, .addFront false ⟨0, 5, 0⟩ false false false false,
                .addListener .http 0 true, .activate (some .http) 0]
    forwarded View.empty ops = ops ∧
    (run WState.init ops).2.map (·.resp) = [[.ok], [.failure], [.ok], [.ok]] ∧
    viewRoutes (run WState.init ops).1.view = [(false, 0, 5)] ∧
    servedRoutes (run WState.init ops).1 = [] := by decide

/-- when the worker's answers agree with the main process' verdicts the two coincide -/
example :
    let ops := [Op.addCluster 0 true true 0, .addListener .http 0 true, .activate (some .http) 0,
                .addFront false ⟨0, 5, 0⟩ false false false false]
    forwarded View.empty ops = ops ∧
    (run WState.init ops).2.map (·.resp) = [[.ok], [.ok], [.ok], [.ok]] ∧
    viewRoutes (run WState.init ops).1.view = servedRoutes (run WState.init ops).1 := by decide

/-- AddCluster is an upsert on both sides: a second AddCluster of a known id with
    other routing knobs replaces the configuration in the view (what
    QueryClusterById reports) and in the plain-HTTP proxy (what it routes with) -/
example :
    let ops := [Op.addCluster 0 true true 0, .addCluster 0 true true 1]
    forwarded View.empty ops = ops ∧
    (run WState.init ops).1.view.clusters = [(0, 1)] ∧
    (run WState.init ops).1.httpClusters = [(0, 1)] ∧
    (clusterInfo (run WState.init ops).1.view 0).knobs = 1 := by decide

end Sozu.Worker
