import Sozu.Worker.Lemmas
/-
C08 — workers answer each command exactly once and converge on the main
process' view. Only property statements (`C08_*`) and their non-vacuity
examples live here.

Reading guide. `respond k e` is the list of statuses that reach the command
channel for one request of kind `k`, for *every* combination `e` of results of
the code `notify`/`notify_proxys` call into. The destination table, the list of
kinds `ConfigState::dispatch` accepts and the scatter sites of the main process
are re-extracted from the source text on every run (`Sozu.Consts.wk*`).
-/
set_option linter.unusedSimpArgs false
set_option linter.unusedVariables false
namespace Sozu.Worker


/-! ### the model covers the protocol -/

/-- every `RequestType` variant of the generated protobuf enum is a `Kind`, in order -/
theorem C08_kinds_cover_protocol :
    (Kind.all.dropLast).map Kind.nameBytes = Consts.wkAllVariants := by decide +kernel

/-- the fold of `notify_proxys` answers Failure iff some destined proxy failed -/
theorem C08_fanout_failure_iff (d : Dest) (r : ProxyResults) :
    aggregate d r = some .failure ↔ someDestinedFailed d r :=
  aggregate_failure_iff d r

example : someDestinedFailed ⟨true, true, false, false⟩ ⟨.ok, .failure, .failure, .ok⟩ := by decide
example : ¬ someDestinedFailed ⟨true, false, false, false⟩ ⟨.ok, .failure, .failure, .failure⟩ := by decide

/-! ### exactly one final status -/

/-- **Exactly one final status, response function.** For EVERY request kind (all 55
    `RequestType` variants and a request without type) and EVERY combination of
    results of the proxies, the listener helpers and the worker-level handlers.
    Hypotheses = what the callees do as coded (discharged for the stateful model by
    `C08_history_one_final`): proxies answer Processing to the stop verbs and only
    to them. Excluded point: a SoftStop is answered OK only when the session count
    reaches `base_sessions_count` (`e.drained`). -/
theorem C08_exactly_one_final_partial (k : Kind) (e : Env)
    (hproc : k ≠ .softStop → k ≠ .hardStop → NoProcessing e.proxies)
    (hstop : k = .softStop ∨ k = .hardStop → aggregate (dests k) e.proxies = some .processing)
    (hsoft : k = .softStop → e.drained = true) :
    (finals (respond k e)).length = 1 :=
  c08_exactly_one_final_partial k e hproc hstop hsoft

example : (finals (respond .removeListener
    ⟨true, false, true, ⟨.ok, .ok, .failure, .ok⟩, true, some .tcp, false⟩)) = [.failure] := by decide

/-- **Exactly one final status, one request on any worker state** (the proxies'
    answers are now computed by the model, no hypothesis on them): exactly one
    final status, unless the request is a SoftStop that finds more listener
    placeholders in the slab than `base_sessions_count` accounts for. -/
theorem C08_step_one_final (s : WState) (op : Op) (hs : s.stopped = false) :
    (finals (step s op).2.resp).length = 1 ∨ (op.kind = .softStop ∧ drainedNow s = false) :=
  step_one_final s op hs

/-- **Exactly one final status, whole histories.** For every sequence of requests
    (ids distinct: entry i of `trace` holds the responses carrying the id of the
    i-th handled request) from any state: every handled request has exactly one
    final status, a HardStop anywhere included; the only exception is a SoftStop
    arriving when `drainedNow` is false. -/
theorem C08_history_one_final (ops : List Op) (s : WState) :
    ∀ t ∈ trace s ops, (finals t.2.2.resp).length = 1 ∨
      (t.2.1.kind = .softStop ∧ drainedNow t.1 = false) :=
  c08_history_one_final ops s

/-- requests behind a stop verb are not handled (the worker is gone / draining) -/
theorem C08_nothing_after_stop (s : WState) (op : Op) (rest : List Op) (hs : s.stopped = false)
    (h : isStop op = true) : trace s (op :: rest) = [(s, op, (step s op).2)] :=
  c08_nothing_after_stop s op rest hs h

/-- non-vacuity: a history with failures, an unhandled kind, a HardStop in the middle -/
example : (trace WState.init [Op.addListener .http 0 true, .plain .countRequests true,
      .addFront false ⟨3, 1, 0⟩ false false false false, .plain .hardStop true,
      .plain .status true]).map (·.2.2.resp)
    = [[.ok], [.failure], [.failure], [.processing, .ok]] := by decide

/-- regression (F16, repaired in /repo 2ea09e9): request kinds nothing handles are
    refused with one Failure instead of being ignored -/
example : (step WState.init (.plain .countRequests true)).2.resp = [.failure] ∧
    (step WState.init (.plain .none true)).2.resp = [.failure] ∧
    (step WState.init (.plain .listWorkers true)).2.resp = [.failure] := by decide

/-- no request is left without any response (SoftStop: at least its Processing) -/
theorem C08_never_unanswered (k : Kind) (e : Env)
    (hproc : k ≠ .softStop → k ≠ .hardStop → NoProcessing e.proxies)
    (hstop : k = .softStop ∨ k = .hardStop → aggregate (dests k) e.proxies = some .processing) :
    respond k e ≠ [] :=
  c08_never_unanswered k e hproc hstop

example : respond .softStop ⟨true, false, true, stopResults false, true, none, false⟩ = [.processing] := by
  decide

/-- excluded point: a SoftStop whose session count never reaches
    `base_sessions_count` is never answered -/
theorem C08_exactly_one_final_counterexample_undrained :
    finals (respond .softStop ⟨true, false, true, stopResults false, true, none, false⟩) = [] := by
  decide

/-- ... and such a state is reached by a command sequence the main process accepts
    entirely: add and activate an HTTP listener, remove it without deactivating it
    first (`base_sessions_count` drops, the listener's slab placeholder stays),
    SoftStop (open findings F103/F104). -/
theorem C08_exactly_one_final_counterexample_reachable :
    let ops := [Op.addListener .http 0 true, .activate (some .http) 0,
                .removeListener (some .http) 0, .plain .softStop true]
    forwarded View.empty ops = ops ∧
    (run WState.init ops).2.map (·.resp) = [[.ok], [.ok], [.ok], [.processing]] := by
  decide

/-- the same with a RemoveListener for an address that has no listener: the HTTP proxy
    even answers OK, and `base_sessions_count` is decremented all the same -/
theorem C08_exactly_one_final_counterexample_bogus_rm :
    (run WState.init [Op.addListener .http 0 true, .removeListener (some .http) 7,
        .plain .softStop true]).2.map (·.resp) = [[.ok], [.ok], [.processing]] := by
  decide

/-- the well-ordered sequence (deactivate, then remove) is answered -/
example : (run WState.init [Op.addListener .http 0 true, .activate (some .http) 0,
    .deactivate (some .http) 0, .removeListener (some .http) 0, .plain .softStop true]).2.map (·.resp)
    = [[.ok], [.ok], [.ok], [.ok], [.processing, .ok]] := by decide

/-- as coded, a stop verb whose proxy reports a failure (a socket deregistration
    error; the stateful model never produces it) gets that Failure and the OK -/
theorem C08_exactly_one_final_counterexample_2_finals :
    finals (respond .softStop
      ⟨true, false, true, ⟨.failure, .processing, .processing, .processing⟩, true, none, true⟩)
      = [.failure, .ok] ∧
    finals (respond .hardStop
      ⟨true, false, true, ⟨.failure, .processing, .ok, .ok⟩, true, none, false⟩)
      = [.failure, .ok] := by decide

/-- **Batches** (response function level): every request the worker reads in one go —
    up to and including a HardStop, wherever it sits — gets exactly one final status -/
theorem C08_batch_one_final (rs : List (Kind × Env))
    (hok : ∀ r ∈ rs, Admissible r.1 r.2) :
    ∀ l ∈ batchDelivered rs, (finals l).length = 1 :=
  c08_batch_one_final rs hok

/-- regression (repaired in /repo de8b744): a request read in the same batch as a
    HardStop that follows it keeps its answer -/
example :
    batchDelivered [(.status, ⟨true, false, true, allOk, true, none, false⟩),
                    (.hardStop, ⟨true, false, true, stopResults true, true, none, false⟩),
                    (.status, ⟨true, false, true, allOk, true, none, false⟩)]
      = [[.ok], [.processing, .ok]] := by decide

/-! ### the final status is Failure iff ... (as coded) -/

/-- **The final status is Failure iff** the worker-level handler failed / the health
    check is invalid / the listener step failed / some destined proxy failed /
    nothing handles the request kind — per kind, as coded (`failureCond`). -/
theorem C08_final_is_failure_iff (k : Kind) (e : Env)
    (hk : k ≠ .softStop) (hk' : k ≠ .hardStop) (hp : NoProcessing e.proxies) :
    finals (respond k e) = [.failure] ↔ failureCond k e :=
  c08_final_is_failure_iff k e hk hk' hp

example : failureCond .addHttpFrontend ⟨true, false, true, ⟨.failure, .ok, .ok, .ok⟩, true, none, false⟩ := by
  show someDestinedFailed _ _ ∨ _
  left; decide

/-- "Failure iff the target is missing" is *not* what the code does: removing a
    backend nobody added, and removing an HTTP listener that does not exist, are
    answered OK (the main process' state refuses both) -/
theorem C08_final_is_failure_iff_counterexample :
    (step WState.init (.removeBackend 0 0 0)).2.resp = [.ok] ∧
    (step WState.init (.removeBackend 0 0 0)).2.accepted = false ∧
    (step WState.init (.removeListener (some .http) 0)).2.resp = [.ok] ∧
    (step WState.init (.removeListener (some .http) 0)).2.accepted = false ∧
    (step WState.init (.removeListener (some .tcp) 0)).2.resp = [.failure] := by
  decide

/-! ### decision logic of the worker-level handlers -/

/-- **SetMetricDetail, table bound.** Over every history the metric-detail lease table
    never holds more than `LEASE_TABLE_CAP` entries (a new client is refused at the cap,
    a renewal is not) -/
theorem C08_lease_table_bounded (ops : List Op) (s : WState)
    (h : s.leases.length ≤ Consts.wkLeaseTableCap) :
    (runState s ops).leases.length ≤ Consts.wkLeaseTableCap :=
  c08_lease_table_bounded ops s h

/-- **SetMetricDetail, ownership.** A lease taken with a known peer binding is renewed or
    cleared by that peer only: any other presenter (other peer, or no binding) gets a
    Failure and the table is unchanged -/
theorem C08_lease_owner_only (ls : List (Nat × Bool × Nat)) (c owner : Nat) (l cl : Bool) (t k : Bool)
    (p : Nat) (hown : ls.find? (·.1 == c) = some (c, true, owner)) (hl : l = false)
    (hother : ¬ (k = true ∧ p = owner)) :
    setDetailStep ls c l cl 1 t k p = (ls, false) :=
  c08_lease_owner_only ls c owner l cl t k p hown hl hother

example : (run WState.init [Op.setDetail 0 false false 1 false true 0, .setDetail 0 false false 1 false true 1,
    .setDetail 0 false true 1 false false 0, .setDetail 0 false true 1 false true 0,
    .setDetail 0 false true 1 false true 0]).2.map (·.resp)
    = [[.ok], [.failure], [.failure], [.ok], [.ok]] := by decide

/-- **Listener capacity gate.** Over every history the listener placeholders never push
    the slab past `10 + 2 * max_connections` (no client session open) ... -/
theorem C08_listener_capacity_bounded (ops : List Op) (s : WState)
    (h : 3 + s.slab.length ≤ capThreshold s) :
    3 + (runState s ops).slab.length ≤ capThreshold (runState s ops) :=
  c08_listener_capacity_bounded ops s h

/-- ... and at the gate every AddListener, of any protocol, is refused with one Failure
    ("session list is full") and the proxies keep their listeners (the views take it:
    same family as F8/F22) -/
theorem C08_listener_capacity_refuses (s : WState) (t : LType) (a : Nat) (v : Bool)
    (hs : s.stopped = false) (h : atCapacity s = true) :
    (step s (.addListener t a v)).2.resp = [.failure] ∧
    (step s (.addListener t a v)).1.listeners = s.listeners :=
  c08_listener_capacity_refuses s t a v hs h

example : atCapacity (runState (WState.initWith 1)
    ((List.range 9).map fun i => Op.addListener .tcp i true)) = true ∧
    atCapacity (runState (WState.initWith 1) ((List.range 8).map fun i => Op.addListener .tcp i true)) = false := by
  decide

/-- **QueryCertificatesFromWorkers by fingerprint** is answered from the view: OK iff some
    address holds that certificate (add / remove / replace keep the view's store) -/
theorem C08_qcerts_found_iff (s : WState) (id : Nat) (hs : s.stopped = false) :
    (step s (.queryCerts 1 id)).2.resp = [.ok] ↔ ∃ a, (a, id) ∈ s.view.certs :=
  c08_qcerts_found_iff s id hs

example : (run WState.init [Op.addCert 0 0 true, .queryCerts 1 0, .replaceCert 0 0 true 1 true,
    .queryCerts 1 0, .queryCerts 1 1, .queryCerts 0 0]).2.map (·.resp)
    = [[.failure], [.ok], [.failure], [.failure], [.ok], [.ok]] := by decide

/-! ### the worker's view converges on the main process' view -/

/-- one step of a running worker updates its `config_state` with the same `dispatch`
    the main process uses, whatever the proxies answered -/
theorem C08_step_view (s : WState) (op : Op) (hs : s.stopped = false) :
    (step s op).1.view = workerViewStep s.view op :=
  c08_step_view s op hs

/-- **View convergence, every command sequence** (stop verbs included, cluster
    updates with their routing knobs included: the view holds them). The main
    process dispatches `ops` on its state and forwards what it accepted; the worker
    handles that up to the first stop verb; its queryable view then equals the main
    process' view at that point, whatever the proxies answered. -/
theorem C08_view_converges (ops : List Op) (s : WState) (hs : s.stopped = false) :
    (runState s (forwarded s.view ops)).view = masterRun s.view (untilStop ops) :=
  c08_view_converges_all ops s hs

/-- non-vacuity: refused commands, a cluster update, a stop verb in the middle -/
example :
    let ops := [Op.addCluster 1 true true 0, .removeBackend 1 0 0, .addBackend 1 0 0,
                .addCluster 1 true true 3, .addFront false ⟨0, 7, 1⟩ false false false false,
                .plain .softStop true, .addCluster 2 true true 0]
    forwarded View.empty ops = [Op.addCluster 1 true true 0, .addBackend 1 0 0,
                .addCluster 1 true true 3, .addFront false ⟨0, 7, 1⟩ false false false false,
                .plain .softStop true, .addCluster 2 true true 0] ∧
    (runState WState.init (forwarded View.empty ops)).view.clusters = [(1, 3)] ∧
    (masterRun View.empty (untilStop ops)).clusters = [(1, 3)] ∧
    (masterRun View.empty ops).clusters = [(2, 0), (1, 3)] := by decide

/-! ### behaviour vs view -/

/-- the main process forwards what its state accepted even if the worker then answers
    Failure, and the worker's view takes the command all the same (F8/F22): -/
theorem C08_view_matches_behaviour_counterexample :
    let ops := [Op.addCluster 0 true true 0, .addFront false ⟨0, 5, 0⟩ false false false false,
                .addListener .http 0 true, .activate (some .http) 0]
    forwarded View.empty ops = ops ∧
    (run WState.init ops).2.map (·.resp) = [[.ok], [.failure], [.ok], [.ok]] ∧
    viewRoutes (run WState.init ops).1.view = [(false, 0, 5)] ∧
    servedRoutes (run WState.init ops).1 = [] := by decide

/-- **Routing tables vs view, the part that holds on the unchanged code.** Over whole
    histories, commands on clusters (updates included), backends, health checks,
    certificates, listener patches, queries and worker-level verbs (`routeNeutral`)
    keep the proxies' HTTP/HTTPS routing tables in step with the frontends of the
    view (`RoutesSync`: per protocol and address, the same frontend keys). NOT
    covered, because false on the unchanged code or not carried by the model:
    frontend commands (F8/F22 counterexample above: a frontend accepted before its
    listener exists, or carrying hsts / an uncompilable regex), listener commands
    (open findings F103-F109: Remove of an active listener, Deactivate then Activate,
    Remove then Add again, slab-token reuse after Deactivate) and the stop verbs. -/
theorem C08_behaviour_matches_view_partial (ops : List Op) (s : WState) (hs : s.stopped = false)
    (hn : ∀ op ∈ ops, routeNeutral op = true) (h : RoutesSync s) : RoutesSync (runState s ops) :=
  c08_behaviour_matches_view_partial ops s hs hn h

/-- non-vacuity: a synchronised state with a route, then neutral commands -/
example :
    let s := runState WState.init [Op.addListener .http 0 true, .activate (some .http) 0,
                .addFront false ⟨0, 5, 0⟩ false false false false]
    routeKeys s false 0 = [5] ∧ viewKeys s.view false 0 = [5] ∧ s.stopped = false ∧
    [Op.addCluster 0 true true 1, .addBackend 0 0 0, .plain .status true].all routeNeutral = true := by
  decide

/-- when the worker's answers agree with the main process' verdicts the two coincide -/
example :
    let ops := [Op.addCluster 0 true true 0, .addListener .http 0 true, .activate (some .http) 0,
                .addFront false ⟨0, 5, 0⟩ false false false false]
    forwarded View.empty ops = ops ∧
    (run WState.init ops).2.map (·.resp) = [[.ok], [.ok], [.ok], [.ok]] ∧
    viewRoutes (run WState.init ops).1.view = servedRoutes (run WState.init ops).1 := by decide

/-- AddCluster is an upsert on both sides: a second AddCluster of a known id with
    other routing knobs replaces the configuration in the view and in the plain-HTTP proxy -/
example :
    let ops := [Op.addCluster 0 true true 0, .addCluster 0 true true 1]
    forwarded View.empty ops = ops ∧
    (run WState.init ops).1.view.clusters = [(0, 1)] ∧
    (run WState.init ops).1.httpClusters = [(0, 1)] ∧
    (clusterInfo (run WState.init ops).1.view 0).knobs = 1 := by decide

end Sozu.Worker
