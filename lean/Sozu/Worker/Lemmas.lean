import Sozu.Worker.Model
/-
Helper lemmas for the C08 theorems: the fold of `notify_proxys`, the
destination table, and the shape of `respond` per request kind.
-/
set_option linter.unusedSimpArgs false
set_option linter.unusedVariables false
namespace Sozu.Worker

/-- a proxy answered `Processing` (only the stop verbs make them do so) -/
def NoProcessing (r : ProxyResults) : Prop :=
  r.http ≠ .processing ∧ r.https ≠ .processing ∧ r.tcp ≠ .processing ∧ r.udp ≠ .processing

instance (r : ProxyResults) : Decidable (NoProcessing r) := by
  unfold NoProcessing; exact inferInstance

def hasDest (d : Dest) : Bool := d.http || d.https || d.tcp || d.udp

/-- some destined proxy answered `Failure` -/
def someDestinedFailed (d : Dest) (r : ProxyResults) : Prop :=
  (d.http = true ∧ r.http = .failure) ∨ (d.https = true ∧ r.https = .failure) ∨
  (d.tcp = true ∧ r.tcp = .failure) ∨ (d.udp = true ∧ r.udp = .failure)

instance (d : Dest) (r : ProxyResults) : Decidable (someDestinedFailed d r) := by
  unfold someDestinedFailed; exact inferInstance

theorem aggStep_none (cur : Option Status) (r : Status) : aggStep cur false r = cur := by
  simp [aggStep]

theorem aggStep_true (cur : Option Status) (r : Status) :
    aggStep cur true r = if r = .failure ∨ cur = none then some r else cur := by
  simp [aggStep]

/-- the fold yields a response iff the request has a destination -/
theorem aggregate_isSome (d : Dest) (r : ProxyResults) :
    (aggregate d r).isSome = hasDest d := by
  obtain ⟨a, b, c, e⟩ := d
  cases a <;> cases b <;> cases c <;> cases e <;>
    simp [aggregate, aggStep, hasDest] <;> (repeat' split) <;> simp_all

/-- the response of the fold is the answer of one of the destined proxies -/
theorem aggregate_mem (d : Dest) (r : ProxyResults) (s : Status) (h : aggregate d r = some s) :
    (d.http = true ∧ s = r.http) ∨ (d.https = true ∧ s = r.https) ∨
    (d.tcp = true ∧ s = r.tcp) ∨ (d.udp = true ∧ s = r.udp) := by
  obtain ⟨a, b, c, e⟩ := d
  cases a <;> cases b <;> cases c <;> cases e <;>
    simp [aggregate, aggStep] at h ⊢ <;> (repeat' split at h) <;> simp_all

/-- the fold answers `Failure` iff some destined proxy failed -/
theorem aggregate_failure_iff (d : Dest) (r : ProxyResults) :
    aggregate d r = some .failure ↔ someDestinedFailed d r := by
  obtain ⟨a, b, c, e⟩ := d
  obtain ⟨h1, h2, h3, h4⟩ := r
  cases a <;> cases b <;> cases c <;> cases e <;>
    cases h1 <;> cases h2 <;> cases h3 <;> cases h4 <;> decide

theorem aggregate_noProcessing (d : Dest) (r : ProxyResults) (s : Status)
    (hp : NoProcessing r) (h : aggregate d r = some s) : s ≠ .processing := by
  obtain ⟨p1, p2, p3, p4⟩ := hp
  rcases aggregate_mem d r s h with ⟨_, e⟩ | ⟨_, e⟩ | ⟨_, e⟩ | ⟨_, e⟩ <;> (subst e; assumption)

theorem finals_append (a b : List Status) : finals (a ++ b) = finals a ++ finals b := by
  simp [finals]

theorem finals_single (s : Status) : finals [s] = if s = .processing then [] else [s] := by
  cases s <;> simp [finals]

theorem finals_st (b : Bool) : finals [st b] = [st b] := by
  cases b <;> simp [finals, st]

/-- with a destination and no `Processing` answer, the fan-out pushes exactly one final status -/
theorem fanout_finals_one (k : Kind) (e : Env) (hd : hasDest (dests k) = true)
    (hp : NoProcessing e.proxies) : (finals (fanout k e)).length = 1 := by
  unfold fanout
  have hs := aggregate_isSome (dests k) e.proxies
  rw [hd] at hs
  match h : aggregate (dests k) e.proxies with
  | some s =>
    have := aggregate_noProcessing _ _ s hp h
    simp [finals_single, this]
  | none => simp [h] at hs

theorem fanout_nil (k : Kind) (e : Env) (hd : hasDest (dests k) = false) : fanout k e = [] := by
  unfold fanout
  have hs := aggregate_isSome (dests k) e.proxies
  rw [hd] at hs
  match h : aggregate (dests k) e.proxies with
  | some s => simp [h] at hs
  | none => rfl

/-- number of final statuses the second `match` of `notify_proxys` pushes: one for
    a listener verb, and one refusal for any other kind no proxy answered -/
def tailCount (k : Kind) : Nat :=
  match k with
  | .addHttpListener | .addHttpsListener | .addTcpListener | .addUdpListener
  | .updateHttpListener | .updateHttpsListener | .updateTcpListener | .updateUdpListener
  | .activateListener | .deactivateListener | .removeListener => 1
  | _ => if hasDest (dests k) then 0 else 1

theorem aggregate_none (d : Dest) (r : ProxyResults) (h : hasDest d = false) :
    aggregate d r = none := by
  have := aggregate_isSome d r
  rw [h] at this
  cases hh : aggregate d r with
  | none => rfl
  | some s => simp [hh] at this

theorem defaultTail_len (d : Dest) (r : ProxyResults) :
    (finals (if (aggregate d r).isSome then [] else [Status.failure])).length
      = if hasDest d then 0 else 1 := by
  rw [aggregate_isSome]
  cases hasDest d <;> simp [finals]

theorem proxyOf_noProcessing (t : LType) (r : ProxyResults) (hp : NoProcessing r) :
    proxyOf t r ≠ .processing := by
  obtain ⟨p1, p2, p3, p4⟩ := hp
  cases t <;> simpa [proxyOf]

@[simp] theorem finals_nil : finals [] = [] := rfl

theorem listenerTail_finals (k : Kind) (e : Env) (hp : NoProcessing e.proxies) :
    (finals (listenerTail k e)).length = tailCount k := by
  cases k
  case removeListener =>
    simp only [listenerTail, tailCount]
    cases h : e.listenerType with
    | none => simp [finals]
    | some t =>
      have := proxyOf_noProcessing t e.proxies hp
      simp [finals_single, this]
  all_goals first
    | (simp only [listenerTail, tailCount]; exact defaultTail_len _ _)
    | simp [listenerTail, tailCount, finals_st]

/-- the explicit destination table (what `get_destinations` says today) -/
def destCount (k : Kind) : Nat := if hasDest (dests k) then 1 else 0

/-- the generic path of `notify_proxys`: fan-out response plus listener response -/
theorem generic_finals (k : Kind) (e : Env) (hp : NoProcessing e.proxies) :
    (finals (fanout k e ++ listenerTail k e)).length = destCount k + tailCount k := by
  rw [finals_append, List.length_append, listenerTail_finals k e hp]
  unfold destCount
  cases hd : hasDest (dests k)
  · simp [fanout_nil k e hd, finals]
  · simp [fanout_finals_one k e hd hp]

end Sozu.Worker
