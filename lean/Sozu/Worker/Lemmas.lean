import Sozu.Worker.Model
/-
Helper lemmas for the C08 theorems: the fold of `notify_proxys`, the
destination table, and the shape of `respond` per request kind.
-/
set_option linter.unusedSimpArgs false
set_option linter.unusedVariables false
namespace Sozu.Worker

/-- a proxy answered `Processing` (only the stop verbs make them do so) -/
def NoProcessing (r : ProxyResults) : Prop :=
  r.http ≠ .processing ∧ r.https ≠ .processing ∧ r.tcp ≠ .processing ∧ r.udp ≠ .processing

instance (r : ProxyResults) : Decidable (NoProcessing r) := by
  unfold NoProcessing; exact inferInstance

def hasDest (d : Dest) : Bool := d.http || d.https || d.tcp || d.udp

/-- some destined proxy answered `Failure` -/
def someDestinedFailed (d : Dest) (r : ProxyResults) : Prop :=
  (d.http = true ∧ r.http = .failure) ∨ (d.https = true ∧ r.https = .failure) ∨
  (d.tcp = true ∧ r.tcp = .failure) ∨ (d.udp = true ∧ r.udp = .failure)

instance (d : Dest) (r : ProxyResults) : Decidable (someDestinedFailed d r) := by
  unfold someDestinedFailed; exact inferInstance

theorem aggStep_none (cur : Option Status) (r : Status) : aggStep cur false r = cur := by
  simp [aggStep]

theorem aggStep_true (cur : Option Status) (r : Status) :
    aggStep cur true r = if r = .failure ∨ cur = none then some r else cur := by
  simp [aggStep]

/-- the fold yields a response iff the request has a destination -/
theorem aggregate_isSome (d : Dest) (r : ProxyResults) :
    (aggregate d r).isSome = hasDest d := by
  obtain ⟨a, b, c, e⟩ := d
  cases a <;> cases b <;> cases c <;> cases e <;>
    simp [aggregate, aggStep, hasDest] <;> (repeat' split) <;> simp_all

/-- the response of the fold is the answer of one of the destined proxies -/
theorem aggregate_mem (d : Dest) (r : ProxyResults) (s : Status) (h : aggregate d r = some s) :
    (d.http = true ∧ s = r.http) ∨ (d.https = true ∧ s = r.https) ∨
    (d.tcp = true ∧ s = r.tcp) ∨ (d.udp = true ∧ s = r.udp) := by
  obtain ⟨a, b, c, e⟩ := d
  cases a <;> cases b <;> cases c <;> cases e <;>
    simp [aggregate, aggStep] at h ⊢ <;> (repeat' split at h) <;> simp_all

/-- the fold answers `Failure` iff some destined proxy failed -/
theorem aggregate_failure_iff (d : Dest) (r : ProxyResults) :
    aggregate d r = some .failure ↔ someDestinedFailed d r := by
  obtain ⟨a, b, c, e⟩ := d
  obtain ⟨h1, h2, h3, h4⟩ := r
  cases a <;> cases b <;> cases c <;> cases e <;>
    cases h1 <;> cases h2 <;> cases h3 <;> cases h4 <;> decide

theorem aggregate_noProcessing (d : Dest) (r : ProxyResults) (s : Status)
    (hp : NoProcessing r) (h : aggregate d r = some s) : s ≠ .processing := by
  obtain ⟨p1, p2, p3, p4⟩ := hp
  rcases aggregate_mem d r s h with ⟨_, e⟩ | ⟨_, e⟩ | ⟨_, e⟩ | ⟨_, e⟩ <;> (subst e; assumption)

theorem finals_append (a b : List Status) : finals (a ++ b) = finals a ++ finals b := by
  simp [finals]

theorem finals_single (s : Status) : finals [s] = if s = .processing then [] else [s] := by
  cases s <;> simp [finals]

theorem finals_st (b : Bool) : finals [st b] = [st b] := by
  cases b <;> simp [finals, st]

/-- with a destination and no `Processing` answer, the fan-out pushes exactly one final status -/
theorem fanout_finals_one (k : Kind) (e : Env) (hd : hasDest (dests k) = true)
    (hp : NoProcessing e.proxies) : (finals (fanout k e)).length = 1 := by
  unfold fanout
  have hs := aggregate_isSome (dests k) e.proxies
  rw [hd] at hs
  match h : aggregate (dests k) e.proxies with
  | some s =>
    have := aggregate_noProcessing _ _ s hp h
    simp [finals_single, this]
  | none => simp [h] at hs

theorem fanout_nil (k : Kind) (e : Env) (hd : hasDest (dests k) = false) : fanout k e = [] := by
  unfold fanout
  have hs := aggregate_isSome (dests k) e.proxies
  rw [hd] at hs
  match h : aggregate (dests k) e.proxies with
  | some s => simp [h] at hs
  | none => rfl

/-- number of final statuses the second `match` of `notify_proxys` pushes: one for
    a listener verb, and one refusal for any other kind no proxy answered -/
def tailCount (k : Kind) : Nat :=
  match k with
  | .addHttpListener | .addHttpsListener | .addTcpListener | .addUdpListener
  | .updateHttpListener | .updateHttpsListener | .updateTcpListener | .updateUdpListener
  | .activateListener | .deactivateListener | .removeListener => 1
  | _ => if hasDest (dests k) then 0 else 1

theorem aggregate_none (d : Dest) (r : ProxyResults) (h : hasDest d = false) :
    aggregate d r = none := by
  have := aggregate_isSome d r
  rw [h] at this
  cases hh : aggregate d r with
  | none => rfl
  | some s => simp [hh] at this

theorem defaultTail_len (d : Dest) (r : ProxyResults) :
    (finals (if (aggregate d r).isSome then [] else [Status.failure])).length
      = if hasDest d then 0 else 1 := by
  rw [aggregate_isSome]
  cases hasDest d <;> simp [finals]

theorem proxyOf_noProcessing (t : LType) (r : ProxyResults) (hp : NoProcessing r) :
    proxyOf t r ≠ .processing := by
  obtain ⟨p1, p2, p3, p4⟩ := hp
  cases t <;> simpa [proxyOf]

@[simp] theorem finals_nil : finals [] = [] := rfl

theorem listenerTail_finals (k : Kind) (e : Env) (hp : NoProcessing e.proxies) :
    (finals (listenerTail k e)).length = tailCount k := by
  cases k
  case removeListener =>
    simp only [listenerTail, tailCount]
    cases h : e.listenerType with
    | none => simp [finals]
    | some t =>
      have := proxyOf_noProcessing t e.proxies hp
      simp [finals_single, this]
  all_goals first
    | (simp only [listenerTail, tailCount]; exact defaultTail_len _ _)
    | simp [listenerTail, tailCount, finals_st]

/-- the explicit destination table (what `get_destinations` says today) -/
def destCount (k : Kind) : Nat := if hasDest (dests k) then 1 else 0

/-- the generic path of `notify_proxys`: fan-out response plus listener response -/
theorem generic_finals (k : Kind) (e : Env) (hp : NoProcessing e.proxies) :
    (finals (fanout k e ++ listenerTail k e)).length = destCount k + tailCount k := by
  rw [finals_append, List.length_append, listenerTail_finals k e hp]
  unfold destCount
  cases hd : hasDest (dests k)
  · simp [fanout_nil k e hd, finals]
  · simp [fanout_finals_one k e hd hp]

/-! ## proofs of the property theorems (stated in Props.lean) -/


/-! ### the model covers the protocol -/

/-- the fold of `notify_proxys` answers Failure iff some destined proxy failed -/
theorem c08_fanout_failure_iff (d : Dest) (r : ProxyResults) :
    aggregate d r = some .failure ↔ someDestinedFailed d r :=
  aggregate_failure_iff d r

/-! ### exactly one final status -/

/-- **Exactly one final status** for EVERY request kind (all 55 `RequestType`
    variants and a request without type), whatever the proxies, the listener
    helpers and the worker-level handlers answer. Hypotheses = what the callees
    do as coded: proxies answer Processing to the stop verbs and only to them
    (unless a socket deregistration fails, see `_2_finals`). The one genuinely
    excluded point: a SoftStop is answered OK only when the session count reaches
    `base_sessions_count` (`e.drained`) — counterexamples below. -/
theorem c08_exactly_one_final_partial (k : Kind) (e : Env)
    (hproc : k ≠ .softStop → k ≠ .hardStop → NoProcessing e.proxies)
    (hstop : k = .softStop ∨ k = .hardStop → aggregate (dests k) e.proxies = some .processing)
    (hsoft : k = .softStop → e.drained = true) :
    (finals (respond k e)).length = 1 := by
  cases k
  case hardStop =>
    have ha := hstop (Or.inr rfl)
    show (finals ((fanout .hardStop e ++ listenerTail .hardStop e) ++ [.ok])).length = 1
    simp [fanout, ha, listenerTail, finals]
  case softStop =>
    have ha := hstop (Or.inl rfl)
    have hd := hsoft rfl
    show (finals ((fanout .softStop e ++ listenerTail .softStop e) ++ (if e.drained then [.ok] else []))).length = 1
    simp [fanout, ha, hd, listenerTail, finals]
  case returnListenSockets => simp [respond, finals_st]
  case configureMetrics => simp [respond, notify, finals_st]
  case queryMetrics => simp [respond, notify, finals_st]
  case setMetricDetail => simp [respond, notify, finals_st]
  case logging => simp [respond, notify, finals]
  case queryClustersHashes => simp [respond, notify, finals]
  case setMaxConnectionsPerIp => simp [respond, notify, finals]
  case queryMaxConnectionsPerIp => simp [respond, notify, finals]
  case queryClustersByDomain => simp [respond, notify, finals]
  case queryClusterById => simp [respond, notify, finals]
  case queryCertificatesFromWorkers =>
    have hp := hproc (by decide) (by decide)
    show (finals (if e.fingerprint then [st e.workerOk] else
            fanout .queryCertificatesFromWorkers e ++ listenerTail .queryCertificatesFromWorkers e)).length = 1
    cases hf : e.fingerprint
    · simp only [Bool.false_eq_true, if_false]
      rw [generic_finals _ e hp]; decide
    · simp [finals_st]
  case addCluster =>
    have hp := hproc (by decide) (by decide)
    show (finals (if e.hcValid then fanout .addCluster e ++ listenerTail .addCluster e else [.failure])).length = 1
    cases hv : e.hcValid
    · simp [finals]
    · simp only [if_true]
      rw [generic_finals _ e hp]; decide
  case setHealthCheck =>
    show (finals (if e.hcValid then [.ok] else [.failure])).length = 1
    cases e.hcValid <;> simp [finals]
  case removeHealthCheck => simp [respond, notify, notifyProxys, finals]
  case addBackend => simp [respond, notify, notifyProxys, finals]
  case removeBackend => simp [respond, notify, notifyProxys, finals]
  all_goals
    (have hp := hproc (by decide) (by decide)
     show (finals (fanout _ e ++ listenerTail _ e)).length = 1
     rw [generic_finals _ e hp]; decide)

/-- no request is left without any response (SoftStop: at least its Processing) -/
theorem c08_never_unanswered (k : Kind) (e : Env)
    (hproc : k ≠ .softStop → k ≠ .hardStop → NoProcessing e.proxies)
    (hstop : k = .softStop ∨ k = .hardStop → aggregate (dests k) e.proxies = some .processing) :
    respond k e ≠ [] := by
  by_cases hs : k = .softStop
  · subst hs
    have ha := hstop (Or.inl rfl)
    show (fanout .softStop e ++ listenerTail .softStop e) ++ (if e.drained then [.ok] else []) ≠ []
    simp [fanout, ha]
  · intro h
    have := c08_exactly_one_final_partial k e hproc hstop (fun h' => absurd h' hs)
    rw [h] at this
    simp [finals] at this

/-- the admissibility hypotheses of `c08_exactly_one_final_partial` for one request -/
def Admissible (k : Kind) (e : Env) : Prop :=
  (k ≠ .softStop → k ≠ .hardStop → NoProcessing e.proxies) ∧
  (k = .softStop ∨ k = .hardStop → aggregate (dests k) e.proxies = some .processing) ∧
  (k = .softStop → e.drained = true)

/-- **Batches.** Every request the worker reads in one go — up to and including a
    HardStop, behind which nothing is read any more — gets exactly one final
    status (no hypothesis on the position of the HardStop: its handler flushes
    the queued responses before its own OK). -/
theorem c08_batch_one_final (rs : List (Kind × Env))
    (hok : ∀ r ∈ rs, Admissible r.1 r.2) :
    ∀ l ∈ batchDelivered rs, (finals l).length = 1 := by
  intro l hl
  have key : ∃ r ∈ rs, l = respond r.1 r.2 := by
    unfold batchDelivered at hl
    split at hl
    · simp only [List.mem_map] at hl
      obtain ⟨r, hr, rfl⟩ := hl
      exact ⟨r, List.mem_of_mem_take hr, rfl⟩
    · simp only [List.mem_map] at hl
      obtain ⟨r, hr, rfl⟩ := hl
      exact ⟨r, hr, rfl⟩
  obtain ⟨r, hr, rfl⟩ := key
  obtain ⟨h1, h2, h3⟩ := hok r hr
  exact c08_exactly_one_final_partial r.1 r.2 h1 h2 h3

/-! ### the final status is Failure iff ... (as coded) -/

/-- the condition under which the code answers Failure -/
def failureCond (k : Kind) (e : Env) : Prop :=
  match k with
  | .configureMetrics | .queryMetrics | .setMetricDetail | .returnListenSockets => e.workerOk = false
  | .queryCertificatesFromWorkers =>
    if e.fingerprint then e.workerOk = false else someDestinedFailed (dests k) e.proxies
  | .addCluster => e.hcValid = false ∨ someDestinedFailed (dests k) e.proxies
  | .setHealthCheck => e.hcValid = false
  | .addHttpListener | .addHttpsListener | .addTcpListener | .addUdpListener
  | .updateHttpListener | .updateHttpsListener | .updateTcpListener | .updateUdpListener
  | .activateListener | .deactivateListener => e.listenerOk = false
  | .removeListener =>
    match e.listenerType with
    | some t => proxyOf t e.proxies = .failure
    | none => True
  | .logging | .queryClustersHashes | .queryClusterById | .queryClustersByDomain
  | .setMaxConnectionsPerIp | .queryMaxConnectionsPerIp | .removeHealthCheck | .addBackend
  | .removeBackend => False
  -- fan-out kinds: a destined proxy failed; kinds nothing handles: always refused
  | _ => someDestinedFailed (dests k) e.proxies ∨ hasDest (dests k) = false

theorem st_eq_failure (b : Bool) : st b = .failure ↔ b = false := by cases b <;> simp [st]

/-- fan-out kinds: the single response is Failure iff a destined proxy failed -/
theorem fanout_failure (k : Kind) (e : Env) (hd : hasDest (dests k) = true)
    (hp : NoProcessing e.proxies) :
    finals (fanout k e) = [.failure] ↔ someDestinedFailed (dests k) e.proxies := by
  rw [← aggregate_failure_iff]
  unfold fanout
  have hs := aggregate_isSome (dests k) e.proxies
  rw [hd] at hs
  match h : aggregate (dests k) e.proxies with
  | some s =>
    have hn := aggregate_noProcessing _ _ s hp h
    simp [finals_single, hn]
  | none => simp [h] at hs

theorem generic_failure_dest (k : Kind) (e : Env) (hd : hasDest (dests k) = true)
    (hp : NoProcessing e.proxies)
    (ht : listenerTail k e = if (aggregate (dests k) e.proxies).isSome then [] else [.failure]) :
    finals (fanout k e ++ listenerTail k e) = [.failure] ↔
      (someDestinedFailed (dests k) e.proxies ∨ hasDest (dests k) = false) := by
  have hs := aggregate_isSome (dests k) e.proxies
  rw [hd] at hs
  rw [ht, hs]
  simp only [if_true, List.append_nil, hd, Bool.true_eq_false, or_false]
  exact fanout_failure k e hd hp

theorem generic_failure_nodest (k : Kind) (e : Env) (hd : hasDest (dests k) = false)
    (ht : listenerTail k e = if (aggregate (dests k) e.proxies).isSome then [] else [.failure]) :
    finals (fanout k e ++ listenerTail k e) = [.failure] ↔
      (someDestinedFailed (dests k) e.proxies ∨ hasDest (dests k) = false) := by
  rw [fanout_nil k e hd, ht, aggregate_none _ _ hd]
  simp [finals, hd]

/-- **The final status is Failure iff** the worker-level handler failed / the
    health check is invalid / the listener step failed / some destined proxy
    failed / nothing handles the request kind — per kind, as coded
    (`failureCond`). The stop verbs are covered by `c08_exactly_one_final_partial`
    (their only final status is the OK). -/
theorem c08_final_is_failure_iff (k : Kind) (e : Env)
    (hk : k ≠ .softStop) (hk' : k ≠ .hardStop) (hp : NoProcessing e.proxies) :
    finals (respond k e) = [.failure] ↔ failureCond k e := by
  cases k
  case softStop => exact absurd rfl hk
  case hardStop => exact absurd rfl hk'
  case returnListenSockets => simp [respond, finals_st, failureCond, st_eq_failure]
  case configureMetrics => simp [respond, notify, finals_st, failureCond, st_eq_failure]
  case queryMetrics => simp [respond, notify, finals_st, failureCond, st_eq_failure]
  case setMetricDetail => simp [respond, notify, finals_st, failureCond, st_eq_failure]
  case logging => simp [respond, notify, finals, failureCond]
  case queryClustersHashes => simp [respond, notify, finals, failureCond]
  case queryClusterById => simp [respond, notify, finals, failureCond]
  case setMaxConnectionsPerIp => simp [respond, notify, finals, failureCond]
  case queryMaxConnectionsPerIp => simp [respond, notify, finals, failureCond]
  case queryClustersByDomain => simp [respond, notify, finals, failureCond]
  case removeHealthCheck => simp [respond, notify, notifyProxys, finals, failureCond]
  case addBackend => simp [respond, notify, notifyProxys, finals, failureCond]
  case removeBackend => simp [respond, notify, notifyProxys, finals, failureCond]
  case setHealthCheck =>
    show finals (if e.hcValid then [.ok] else [.failure]) = [.failure] ↔ e.hcValid = false
    cases e.hcValid <;> simp [finals]
  case queryCertificatesFromWorkers =>
    show finals (if e.fingerprint then [st e.workerOk] else
          fanout .queryCertificatesFromWorkers e ++ listenerTail .queryCertificatesFromWorkers e) = [.failure]
        ↔ (if e.fingerprint then e.workerOk = false else someDestinedFailed (dests .queryCertificatesFromWorkers) e.proxies)
    cases hf : e.fingerprint
    · simp only [Bool.false_eq_true, if_false]
      have := generic_failure_dest .queryCertificatesFromWorkers e (by decide) hp rfl
      simpa [show hasDest (dests .queryCertificatesFromWorkers) = true by decide] using this
    · simp [finals_st, st_eq_failure]
  case addCluster =>
    show finals (if e.hcValid then fanout .addCluster e ++ listenerTail .addCluster e else [.failure]) = [.failure]
        ↔ (e.hcValid = false ∨ someDestinedFailed (dests .addCluster) e.proxies)
    cases hv : e.hcValid
    · simp [finals]
    · simp only [if_true, Bool.true_eq_false, false_or]
      have := generic_failure_dest .addCluster e (by decide) hp rfl
      simpa [show hasDest (dests .addCluster) = true by decide] using this
  case removeListener =>
    show finals (fanout .removeListener e ++ listenerTail .removeListener e) = [.failure] ↔ _
    rw [fanout_nil _ e (by decide)]
    simp only [List.nil_append, listenerTail, failureCond]
    cases h : e.listenerType with
    | none => simp [finals]
    | some t =>
      have := proxyOf_noProcessing t e.proxies hp
      simp [finals_single, this]
  all_goals first
    | (show finals (fanout _ e ++ listenerTail _ e) = [.failure] ↔ _
       rw [fanout_nil _ e (by decide)]
       simp [listenerTail, failureCond, finals_st, st_eq_failure]
       done)
    | exact generic_failure_dest _ e (by decide) hp rfl
    | exact generic_failure_nodest _ e (by decide) rfl

/-! ### the worker's view converges on the main process' view -/

theorem dispatchView_rejected (v : View) (op : Op) (h : (dispatchView v op).2 = false) :
    (dispatchView v op).1 = v := by
  cases op <;> simp only [dispatchView] at h ⊢ <;> (repeat' split at h) <;> (repeat' split) <;> simp_all

theorem dispatchView_unreached (v : View) (op : Op)
    (h : reachesDispatch op.kind (fingerprintOf op) = false) : (dispatchView v op).1 = v := by
  cases op with
  | plain k ok => simp [dispatchView]
  | queryCerts m i => simp [dispatchView]
  | setDetail c l cl d t k p => simp [dispatchView]
  | queryCluster c => simp [dispatchView]
  | setHealthCheck c valid => simp [dispatchView]
  | removeHealthCheck c => simp [dispatchView]
  | updateListener t a valid => simp [dispatchView]
  | removeCert a i hv => simp [reachesDispatch, Op.kind] at h
  | replaceCert a o hv n nv => simp [reachesDispatch, Op.kind] at h
  | addListener t a valid => cases t <;> simp [reachesDispatch, Op.kind] at h
  | addFront tls f' b1 b2 b3 b4 => cases tls <;> simp [reachesDispatch, Op.kind] at h
  | removeFront tls f' b1 b2 b3 => cases tls <;> simp [reachesDispatch, Op.kind] at h
  | addL4Front udp a c => cases udp <;> simp [reachesDispatch, Op.kind] at h
  | removeL4Front udp a c => cases udp <;> simp [reachesDispatch, Op.kind] at h
  | addCluster c hv tv kn => simp [reachesDispatch, Op.kind] at h
  | removeCluster c => simp [reachesDispatch, Op.kind] at h
  | addBackend c b a => simp [reachesDispatch, Op.kind] at h
  | removeBackend c b a => simp [reachesDispatch, Op.kind] at h
  | activate t a => simp [reachesDispatch, Op.kind] at h
  | deactivate t a => simp [reachesDispatch, Op.kind] at h
  | removeListener t a => simp [reachesDispatch, Op.kind] at h
  | addCert a i valid => simp [reachesDispatch, Op.kind] at h

/-- one step of a running worker updates its `config_state` with the same
    `dispatch` the main process uses, whatever the proxies answered -/
theorem c08_step_view (s : WState) (op : Op) (hs : s.stopped = false) :
    (step s op).1.view = workerViewStep s.view op := by
  simp only [step, hs, workerViewStep]
  cases h : dispatchView s.view op
  simp

theorem step_stopped (s : WState) (op : Op) (hs : s.stopped = false)
    (hk : op.kind ≠ .softStop ∧ op.kind ≠ .hardStop) : (step s op).1.stopped = false := by
  simp only [step, hs]
  cases h : dispatchView s.view op
  simp [hk.1, hk.2]

/-- **View convergence.** Start a worker and a main process from the same view;
    let the main process dispatch any command sequence on its state and forward
    the commands it accepted (no stop verb: a stopped worker has no view any
    more). Whatever the proxies answered, the worker's queryable view equals the
    main process' view. -/
theorem c08_view_converges (ops : List Op) (s : WState) (hs : s.stopped = false)
    (hk : ∀ op ∈ ops, op.kind ≠ .softStop ∧ op.kind ≠ .hardStop) :
    (runState s (forwarded s.view ops)).view = masterRun s.view ops := by
  induction ops generalizing s with
  | nil => simp [forwarded, runState, masterRun]
  | cons op rest ih =>
    have hk0 := hk op (by simp)
    have hkr : ∀ o ∈ rest, o.kind ≠ .softStop ∧ o.kind ≠ .hardStop := fun o ho => hk o (by simp [ho])
    simp only [forwarded, masterRun, List.foldl_cons]
    by_cases hacc : (dispatchView s.view op).2 = true
    · simp only [hacc, if_true]
      simp only [runState, List.foldl_cons]
      have hview : (step s op).1.view = (dispatchView s.view op).1 := by
        rw [c08_step_view s op hs]
        unfold workerViewStep
        by_cases hr : reachesDispatch op.kind (fingerprintOf op) = true
        · simp [hr]
        · have hr' : reachesDispatch op.kind (fingerprintOf op) = false := by simpa using hr
          simp only [hr', Bool.false_eq_true, if_false]
          exact (dispatchView_unreached s.view op hr').symm
      have hst := step_stopped s op hs hk0
      have := ih (step s op).1 hst hkr
      rw [hview] at this
      simpa [runState, masterRun] using this
    · -- refused by the main process: not forwarded, and its state is unchanged
      have hacc' : (dispatchView s.view op).2 = false := by simpa using hacc
      simp only [hacc', Bool.false_eq_true, if_false]
      rw [dispatchView_rejected s.view op hacc']
      have := ih s hs hkr
      simpa [masterRun] using this



/-! ## histories -/

/-- what the proxies answer as coded: never Processing, except to the stop verbs -/
theorem proxyStep_noProcessing (s : WState) (op : Op) (h1 : op.kind ≠ .softStop)
    (h2 : op.kind ≠ .hardStop) : NoProcessing (proxyStep s op).2.proxies := by
  cases op <;> simp only [proxyStep] <;> (repeat' split) <;>
    simp_all [NoProcessing, envOf, allOk, unsupported, setProxy, Op.kind]

theorem proxyStep_softStop (s : WState) (b : Bool) :
    aggregate (dests .softStop) (proxyStep s (.plain .softStop b)).2.proxies = some .processing ∧
    (proxyStep s (.plain .softStop b)).2.drained = drainedNow s := by
  refine ⟨?_, ?_⟩
  · simp only [proxyStep, envOf]; decide
  · simp only [proxyStep, envOf]

theorem proxyStep_hardStop (s : WState) (b : Bool) :
    aggregate (dests .hardStop) (proxyStep s (.plain .hardStop b)).2.proxies = some .processing := by
  simp only [proxyStep, envOf]; decide

/-- only the payload-free op carries a stop verb -/
theorem kind_stop (op : Op) (h : op.kind = .softStop ∨ op.kind = .hardStop) :
    ∃ b, op = .plain op.kind b := by
  cases op
  case plain k b => exact ⟨b, rfl⟩
  all_goals (exfalso; revert h; simp only [Op.kind]; (try split) <;> simp)

theorem step_resp (s : WState) (op : Op) (hs : s.stopped = false) :
    (step s op).2.resp = respond op.kind (proxyStep s op).2 := by
  simp only [step, hs]
  cases h : dispatchView s.view op
  cases h2 : proxyStep s op
  simp

/-- one request on any running worker state: exactly one final status, unless it is
    a SoftStop that finds more listener placeholders in the slab than
    `base_sessions_count` allows -/
theorem step_one_final (s : WState) (op : Op) (hs : s.stopped = false) :
    (finals (step s op).2.resp).length = 1 ∨ (op.kind = .softStop ∧ drainedNow s = false) := by
  by_cases hk : op.kind = .softStop ∧ drainedNow s = false
  · exact Or.inr hk
  · left
    rw [step_resp s op hs]
    apply c08_exactly_one_final_partial
    · exact proxyStep_noProcessing s op
    · intro h
      obtain ⟨b, hb⟩ := kind_stop op h
      rcases h with h | h
      · rw [h] at hb; subst hb; exact (proxyStep_softStop s b).1
      · rw [h] at hb; subst hb; exact proxyStep_hardStop s b
    · intro h
      obtain ⟨b, hb⟩ := kind_stop op (Or.inl h)
      rw [h] at hb; subst hb
      rw [(proxyStep_softStop s b).2]
      cases hd : drainedNow s
      · exact absurd ⟨rfl, hd⟩ hk
      · rfl

theorem trace_stopped (s : WState) (ops : List Op) (hs : s.stopped = true) : trace s ops = [] := by
  cases ops <;> simp [trace, hs]

theorem step_isStop (s : WState) (op : Op) (hs : s.stopped = false) (h : isStop op = true) :
    (step s op).1.stopped = true := by
  simp only [step, hs]
  cases h1 : dispatchView s.view op
  cases h2 : proxyStep s op
  simp only [isStop, Bool.or_eq_true] at h
  rcases h with h | h <;> simp_all

/-- **History level.** Whatever requests were handled before, every request a worker
    handles gets exactly one final status — unless it is a SoftStop arriving in a
    state whose slab holds more listener placeholders than `base_sessions_count`. -/
theorem c08_history_one_final (ops : List Op) (s : WState) :
    ∀ t ∈ trace s ops, (finals t.2.2.resp).length = 1 ∨
      (t.2.1.kind = .softStop ∧ drainedNow t.1 = false) := by
  induction ops generalizing s with
  | nil => simp [trace]
  | cons op rest ih =>
    intro t ht
    simp only [trace] at ht
    by_cases hs : s.stopped = true
    · simp [hs] at ht
    · have hs' : s.stopped = false := by simpa using hs
      simp only [hs', Bool.false_eq_true, if_false, List.mem_cons] at ht
      rcases ht with rfl | ht
      · exact step_one_final s op hs'
      · exact ih _ t ht

/-- nothing behind a stop verb is handled: the trace ends with it -/
theorem c08_nothing_after_stop (s : WState) (op : Op) (rest : List Op) (hs : s.stopped = false)
    (h : isStop op = true) : trace s (op :: rest) = [(s, op, (step s op).2)] := by
  simp only [trace, hs, Bool.false_eq_true, if_false]
  rw [trace_stopped _ rest (step_isStop s op hs h)]

theorem runState_stopped (s : WState) (ops : List Op) (hs : s.stopped = true) : runState s ops = s := by
  induction ops with
  | nil => rfl
  | cons op rest ih =>
    simp only [runState, List.foldl_cons]
    have : (step s op).1 = s := by simp [step, hs]
    rw [this]; exact ih

/-- **View convergence for every command sequence**, stop verbs included: the worker
    handles what the main process forwarded up to the first stop verb, and its view
    then equals the main process' view at that point. -/
theorem c08_view_converges_all (ops : List Op) (s : WState) (hs : s.stopped = false) :
    (runState s (forwarded s.view ops)).view = masterRun s.view (untilStop ops) := by
  induction ops generalizing s with
  | nil => simp [forwarded, runState, masterRun, untilStop]
  | cons op rest ih =>
    by_cases hstop : isStop op = true
    · -- a stop verb: always accepted, leaves both views alone, ends the worker
      have hk : op.kind = .softStop ∨ op.kind = .hardStop := by
        simpa [isStop] using hstop
      obtain ⟨b, hb⟩ := kind_stop op hk
      have hd : dispatchView s.view op = (s.view, true) := by
        rcases hk with hk | hk
        · rw [hk] at hb; subst hb; simp only [dispatchView]; congr 1
        · rw [hk] at hb; subst hb; simp only [dispatchView]; congr 1
      simp only [forwarded, hd, if_true, untilStop, hstop, masterRun, List.foldl_cons, List.foldl_nil,
        runState]
      have hst := step_isStop s op hs hstop
      have := runState_stopped (step s op).1 (forwarded s.view rest) hst
      simp only [runState] at this
      rw [this, c08_step_view s op hs]
      unfold workerViewStep
      split
      · rw [hd]
      · rfl
    · have hstop' : isStop op = false := by simpa using hstop
      have hk0 : op.kind ≠ .softStop ∧ op.kind ≠ .hardStop := by
        simpa [isStop] using hstop'
      simp only [forwarded, masterRun, List.foldl_cons, untilStop, hstop', Bool.false_eq_true, if_false]
      by_cases hacc : (dispatchView s.view op).2 = true
      · simp only [hacc, if_true]
        simp only [runState, List.foldl_cons]
        have hview : (step s op).1.view = (dispatchView s.view op).1 := by
          rw [c08_step_view s op hs]
          unfold workerViewStep
          by_cases hr : reachesDispatch op.kind (fingerprintOf op) = true
          · simp [hr]
          · have hr' : reachesDispatch op.kind (fingerprintOf op) = false := by simpa using hr
            simp only [hr', Bool.false_eq_true, if_false]
            exact (dispatchView_unreached s.view op hr').symm
        have hst := step_stopped s op hs hk0
        have := ih (step s op).1 hst
        rw [hview] at this
        simpa [runState, masterRun] using this
      · have hacc' : (dispatchView s.view op).2 = false := by simpa using hacc
        simp only [hacc', Bool.false_eq_true, if_false]
        rw [dispatchView_rejected s.view op hacc']
        have := ih s hs
        simpa [masterRun] using this

/-! ## routing tables vs view -/

def tyOf (tls : Bool) : LType := if tls then .https else .http
def frontsOf (v : View) (tls : Bool) : List Front := if tls then v.httpsFronts else v.httpFronts

/-- frontend keys the proxy of that protocol routes on address `a` -/
def routeKeys (s : WState) (tls : Bool) (a : Nat) : List Nat :=
  match findL s (tyOf tls) a with
  | some l => l.routes.map (·.1)
  | none => []

/-- frontend keys the view shows on address `a` -/
def viewKeys (v : View) (tls : Bool) (a : Nat) : List Nat :=
  ((frontsOf v tls).filter (·.addr == a)).map (·.key)

def RoutesSync (s : WState) : Prop :=
  ∀ tls a k, k ∈ routeKeys s tls a ↔ k ∈ viewKeys s.view tls a

theorem findL_mapL (s : WState) (t : LType) (a : Nat) (f : PListener → PListener) (l0 : PListener)
    (h0 : findL s t a = some l0) (hf : ∀ l, (f l).ty = l.ty ∧ (f l).addr = l.addr) (t' : LType) (a' : Nat) :
    findL (mapL s t a f) t' a' = (findL s t' a').map (fun l => if l == l0 then f l else l) := by
  unfold mapL
  rw [h0]
  simp only [findL, List.find?_map]
  congr 1
  have : ((fun l : PListener => l.ty == t' && l.addr == a') ∘ fun l => if (l == l0) = true then f l else l)
       = (fun l : PListener => l.ty == t' && l.addr == a') := by
    funext l
    simp only [Function.comp]
    by_cases h : (l == l0) = true
    · simp [h, (hf l).1, (hf l).2]
    · simp [h]
  rw [this]


/-- commands that touch neither a proxy's listener table nor the frontends of the view -/
def routeNeutral (op : Op) : Bool :=
  match op with
  | .plain k _ => k != .softStop && k != .hardStop && k != .returnListenSockets
  | .queryCerts .. | .setDetail .. | .queryCluster _ | .addCluster .. | .removeCluster _ | .addBackend ..
  | .removeBackend .. | .setHealthCheck .. | .removeHealthCheck _ | .updateListener ..
  | .addCert .. | .removeCert .. | .replaceCert .. => true
  | _ => false

theorem step_neutral (s : WState) (op : Op) (hs : s.stopped = false) (h : routeNeutral op = true) :
    (step s op).1.listeners = s.listeners ∧ (step s op).1.view.httpFronts = s.view.httpFronts ∧
    (step s op).1.view.httpsFronts = s.view.httpsFronts := by
  cases op <;> simp only [routeNeutral] at h <;>
    simp only [step, hs, proxyStep, dispatchView, Bool.false_eq_true, if_false] <;>
    (repeat' split) <;> simp_all


theorem routesSync_of_eq (s s' : WState) (hl : s'.listeners = s.listeners)
    (h1 : s'.view.httpFronts = s.view.httpFronts) (h2 : s'.view.httpsFronts = s.view.httpsFronts)
    (h : RoutesSync s) : RoutesSync s' := by
  intro tls a k
  have := h tls a k
  simp only [routeKeys, findL, viewKeys, frontsOf, hl, h1, h2] at this ⊢
  exact this

theorem step_neutral_stopped (s : WState) (op : Op) (hs : s.stopped = false)
    (h : routeNeutral op = true) : (step s op).1.stopped = false := by
  apply step_stopped s op hs
  cases op <;> simp_all [routeNeutral, Op.kind] <;> (try split) <;> simp_all

/-- commands on clusters, backends, health checks, certificates, listener patches,
    queries and worker-level verbs never move the proxies' routing tables away from
    the frontends of the view — over whole histories -/
theorem c08_behaviour_matches_view_partial (ops : List Op) (s : WState) (hs : s.stopped = false)
    (hn : ∀ op ∈ ops, routeNeutral op = true) (h : RoutesSync s) : RoutesSync (runState s ops) := by
  induction ops generalizing s with
  | nil => exact h
  | cons op rest ih =>
    have h0 := hn op (by simp)
    obtain ⟨hl, h1, h2⟩ := step_neutral s op hs h0
    simp only [runState, List.foldl_cons]
    exact ih (step s op).1 (step_neutral_stopped s op hs h0) (fun o ho => hn o (by simp [ho]))
      (routesSync_of_eq s _ hl h1 h2 h)

/-! ## metric-detail leases, listener capacity, certificate queries -/


theorem filter_ne_lt (ls : List (Nat × Bool × Nat)) (c : Nat) (e : Nat × Bool × Nat)
    (h : ls.find? (·.1 == c) = some e) : (ls.filter (·.1 != c)).length < ls.length := by
  induction ls with
  | nil => simp at h
  | cons x xs ih =>
    have hle := List.length_filter_le (fun y : Nat × Bool × Nat => y.1 != c) xs
    by_cases hx : (x.1 == c) = true
    · have : (x.1 != c) = false := by simp [bne, hx]
      simp only [List.filter_cons, this, List.length_cons]
      simp; omega
    · have hx' : (x.1 == c) = false := by simpa using hx
      simp only [List.find?_cons, hx'] at h
      have := ih h
      have hne : (x.1 != c) = true := by simp [bne, hx']
      simp only [List.filter_cons, hne, if_true, List.length_cons]
      omega

theorem setDetailStep_bounded (ls : List (Nat × Bool × Nat)) (c : Nat) (l cl : Bool) (d : Nat) (t k : Bool) (p : Nat)
    (h : ls.length ≤ Consts.wkLeaseTableCap) :
    (setDetailStep ls c l cl d t k p).1.length ≤ Consts.wkLeaseTableCap := by
  unfold setDetailStep
  have hf : (ls.filter (·.1 != c)).length ≤ ls.length := List.length_filter_le _ _
  simp only
  repeat' split
  all_goals (try simp only [List.length_cons]) <;> (try omega)
  · next e heq _ => have := filter_ne_lt ls c e heq; omega
  · next hcap _ heq _ =>
    simp [heq] at hcap
    omega

/-- every command but SetMetricDetail leaves the lease table alone -/
theorem proxyStep_leases (s : WState) (op : Op) :
    (proxyStep s op).1.leases = s.leases ∨
    ∃ c l cl d t k p, (proxyStep s op).1.leases = (setDetailStep s.leases c l cl d t k p).1 := by
  cases op
  case setDetail c l cl d t k p => right; exact ⟨c, l, cl, d, t, k, p, by simp [proxyStep]⟩
  all_goals (left; simp only [proxyStep] <;> (repeat' split) <;> (try simp_all [mapL]) <;> (repeat' split) <;> (try simp_all))


theorem step_leases_bounded (s : WState) (op : Op) (h : s.leases.length ≤ Consts.wkLeaseTableCap) :
    (step s op).1.leases.length ≤ Consts.wkLeaseTableCap := by
  by_cases hs : s.stopped = true
  · simp [step, hs, h]
  · have hs' : s.stopped = false := by simpa using hs
    have : (step s op).1.leases = (proxyStep s op).1.leases := by
      simp only [step, hs']
      cases h1 : dispatchView s.view op
      cases h2 : proxyStep s op
      simp
    rw [this]
    rcases proxyStep_leases s op with h' | ⟨c, l, cl, d, t, k, p, h'⟩
    · rw [h']; exact h
    · rw [h']; exact setDetailStep_bounded _ _ _ _ _ _ _ _ h

/-- the metric-detail lease table never holds more than LEASE_TABLE_CAP entries -/
theorem c08_lease_table_bounded (ops : List Op) (s : WState)
    (h : s.leases.length ≤ Consts.wkLeaseTableCap) :
    (runState s ops).leases.length ≤ Consts.wkLeaseTableCap := by
  induction ops generalizing s with
  | nil => exact h
  | cons op rest ih =>
    simp only [runState, List.foldl_cons]
    exact ih _ (step_leases_bounded s op h)

/-- a lease taken with a known peer binding can be renewed or cleared by that peer only -/
theorem c08_lease_owner_only (ls : List (Nat × Bool × Nat)) (c owner : Nat) (l cl : Bool) (t k : Bool) (p : Nat)
    (hown : ls.find? (·.1 == c) = some (c, true, owner)) (hl : l = false)
    (hother : ¬ (k = true ∧ p = owner)) :
    setDetailStep ls c l cl 1 t k p = (ls, false) := by
  unfold setDetailStep
  have hr : (k && (owner == p)) = false := by
    cases k <;> simp_all
    intro h; exact hother h.symm
  simp [hown, hl, hr] <;> cases cl <;> cases t <;> simp



theorem proxyStep_slab (s : WState) (op : Op) :
    ((proxyStep s op).1.slab.length ≤ s.slab.length ∨
     (atCapacity s = false ∧ (proxyStep s op).1.slab.length = s.slab.length + 1)) ∧
    (proxyStep s op).1.maxConn = s.maxConn := by
  cases op
  case addListener t a v =>
    simp only [proxyStep]
    split
    · next h => simp at h; refine ⟨Or.inr ⟨by simpa using h.1.1, by simp⟩, rfl⟩
    · exact ⟨Or.inl (Nat.le_refl _), rfl⟩
  case deactivate t a =>
    simp only [proxyStep]
    (repeat' split) <;> simp_all [mapL] <;> (repeat' split) <;> (try simp_all) <;>
      (try exact Or.inl (List.length_filter_le _ _))
  all_goals (simp only [proxyStep] <;> (repeat' split) <;> (try simp_all [mapL]) <;> (repeat' split) <;> (try simp_all))


/-- the accept-gate threshold `10 + 2 * max_connections` -/
def capThreshold (s : WState) : Nat := Consts.sessAcceptBase + Consts.sessAcceptFactor * s.maxConn

theorem step_slab_bounded (s : WState) (op : Op) (h : 3 + s.slab.length ≤ capThreshold s) :
    3 + (step s op).1.slab.length ≤ capThreshold (step s op).1 := by
  by_cases hs : s.stopped = true
  · simp [step, hs, h]
  · have hs' : s.stopped = false := by simpa using hs
    have e1 : (step s op).1.slab = (proxyStep s op).1.slab ∧ (step s op).1.maxConn = (proxyStep s op).1.maxConn := by
      simp only [step, hs']
      cases h1 : dispatchView s.view op
      cases h2 : proxyStep s op
      simp
    obtain ⟨hsl, hm⟩ := proxyStep_slab s op
    unfold capThreshold at h ⊢
    rw [e1.1, e1.2, hm]
    rcases hsl with hle | ⟨hcap, heq⟩
    · omega
    · simp only [atCapacity, decide_eq_false_iff_not, ge_iff_le, Nat.not_le] at hcap
      omega

/-- the listener placeholders never push the slab past the accept gate:
    `slab.len() <= 10 + 2 * max_connections` over every history (no client session open) -/
theorem c08_listener_capacity_bounded (ops : List Op) (s : WState) (h : 3 + s.slab.length ≤ capThreshold s) :
    3 + (runState s ops).slab.length ≤ capThreshold (runState s ops) := by
  induction ops generalizing s with
  | nil => exact h
  | cons op rest ih =>
    simp only [runState, List.foldl_cons]
    exact ih _ (step_slab_bounded s op h)

/-- at the gate every AddListener is refused ("session list is full") and the worker keeps its listeners -/
theorem c08_listener_capacity_refuses (s : WState) (t : LType) (a : Nat) (v : Bool) (hs : s.stopped = false)
    (h : atCapacity s = true) :
    (step s (.addListener t a v)).2.resp = [.failure] ∧
    (step s (.addListener t a v)).1.listeners = s.listeners := by
  have hp : proxyStep s (.addListener t a v) = (s, envOf true false true allOk false none false) := by
    simp [proxyStep, h]
  refine ⟨?_, ?_⟩
  · rw [step_resp s _ hs, hp]
    cases t <;>
      (simp only [Op.kind]
       show fanout _ _ ++ listenerTail _ _ = [.failure]
       rw [fanout_nil _ _ (by decide)]
       simp [listenerTail, envOf, st])
  · simp only [step, hs, hp]
    cases h1 : dispatchView s.view (.addListener t a v)
    simp

/-- a fingerprint query is answered OK iff the view holds that certificate on some address -/
theorem c08_qcerts_found_iff (s : WState) (id : Nat) (hs : s.stopped = false) :
    (step s (.queryCerts 1 id)).2.resp = [.ok] ↔ ∃ a, (a, id) ∈ s.view.certs := by
  rw [step_resp s _ hs]
  simp only [Op.kind, proxyStep, envOf, respond, notify]
  simp only [beq_self_eq_true, if_true]
  by_cases hh : s.view.certs.any (·.2 == id) = true
  · simp only [hh, st, if_true, true_iff]
    simp only [List.any_eq_true] at hh
    obtain ⟨x, hx, hid⟩ := hh
    obtain ⟨xa, xi⟩ := x
    simp at hid
    exact ⟨xa, by rw [← hid]; exact hx⟩
  · have hf : s.view.certs.any (·.2 == id) = false := by
      cases hany : s.view.certs.any (·.2 == id)
      · rfl
      · exact absurd hany hh
    simp only [hf, st]
    constructor
    · intro h; simp at h
    · intro ⟨a, ha⟩
      exfalso
      apply hh
      simp only [List.any_eq_true]
      exact ⟨(a, id), ha, by simp⟩


end Sozu.Worker
