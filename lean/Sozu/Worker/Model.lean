import Sozu.Generated.Consts
/-
Model of the worker's command handling (property C08):

* `respond` — `Server::read_channel_messages_and_notify`, `Server::notify` and
  `Server::notify_proxys` (lib/src/server.rs) as a function from the request
  kind and the results of everything the handlers call (the four proxies'
  `notify`, the listener helpers, the worker-level handlers) to the list of
  response statuses that reach the command channel for that request id;
* `dests` — `Request::get_destinations` (command/src/request.rs);
* `View` / `dispatchView` — the part of `ConfigState::dispatch`
  (command/src/state.rs) that `QueryClusterById` exposes, keyed as the code
  keys it, run identically by the main process and by the worker;
* `WState` / `step` — the worker: its `config_state` (a `View`), the proxy
  side state that decides Ok/Failure (listeners per proxy, router entries,
  TCP/UDP listener cluster), and the `base_sessions_count` / slab accounting
  that decides whether a SoftStop is ever answered.

Cluster ids, addresses, backend ids and frontend keys are `Nat` (opaque
identities chosen by the harness). Import-free so the driver links.
-/
namespace Sozu.Worker

/-- `ResponseStatus` -/
inductive Status | ok | failure | processing
deriving DecidableEq, Repr, Inhabited

/-- `ListenerType` -/
inductive LType | http | https | tcp | udp
deriving DecidableEq, Repr, Inhabited

/-- every `request::RequestType` variant of command.proto, plus `none` for a
    `Request` whose `request_type` is `None` -/
inductive Kind
  | none
  | saveState | loadState | listWorkers | listFrontends | listListeners | launchWorker
  | upgradeMain | upgradeWorker | subscribeEvents | reloadConfiguration | status
  | addCluster | removeCluster | addHttpFrontend | removeHttpFrontend | addHttpsFrontend
  | removeHttpsFrontend | addCertificate | replaceCertificate | removeCertificate
  | addTcpFrontend | removeTcpFrontend | addBackend | removeBackend | addHttpListener
  | addHttpsListener | addTcpListener | removeListener | activateListener | deactivateListener
  | queryClusterById | queryClustersByDomain | queryClustersHashes | queryMetrics | softStop
  | hardStop | configureMetrics | logging | returnListenSockets | queryCertificatesFromTheState
  | queryCertificatesFromWorkers | countRequests | updateHttpListener | updateHttpsListener
  | updateTcpListener | setMaxConnectionsPerIp | queryMaxConnectionsPerIp | setHealthCheck
  | removeHealthCheck | queryHealthChecks | setMetricDetail | addUdpListener | updateUdpListener
  | addUdpFrontend | removeUdpFrontend
deriving DecidableEq, Repr, Inhabited

/-- all request kinds (55 proto variants, then `none`) -/
def Kind.all : List Kind :=
  [.saveState, .loadState, .listWorkers, .listFrontends, .listListeners, .launchWorker,
   .upgradeMain, .upgradeWorker, .subscribeEvents, .reloadConfiguration, .status,
   .addCluster, .removeCluster, .addHttpFrontend, .removeHttpFrontend, .addHttpsFrontend,
   .removeHttpsFrontend, .addCertificate, .replaceCertificate, .removeCertificate,
   .addTcpFrontend, .removeTcpFrontend, .addBackend, .removeBackend, .addHttpListener,
   .addHttpsListener, .addTcpListener, .removeListener, .activateListener, .deactivateListener,
   .queryClusterById, .queryClustersByDomain, .queryClustersHashes, .queryMetrics, .softStop,
   .hardStop, .configureMetrics, .logging, .returnListenSockets, .queryCertificatesFromTheState,
   .queryCertificatesFromWorkers, .countRequests, .updateHttpListener, .updateHttpsListener,
   .updateTcpListener, .setMaxConnectionsPerIp, .queryMaxConnectionsPerIp, .setHealthCheck,
   .removeHealthCheck, .queryHealthChecks, .setMetricDetail, .addUdpListener, .updateUdpListener,
   .addUdpFrontend, .removeUdpFrontend, .none]

/-- the Rust variant name (`RequestType::<name>`), used to tie the tables below
    to the lists the translator extracts from the source text -/
def Kind.name : Kind → String
  | .none => "None"
  | .saveState => "SaveState" | .loadState => "LoadState" | .listWorkers => "ListWorkers"
  | .listFrontends => "ListFrontends" | .listListeners => "ListListeners"
  | .launchWorker => "LaunchWorker" | .upgradeMain => "UpgradeMain"
  | .upgradeWorker => "UpgradeWorker" | .subscribeEvents => "SubscribeEvents"
  | .reloadConfiguration => "ReloadConfiguration" | .status => "Status"
  | .addCluster => "AddCluster" | .removeCluster => "RemoveCluster"
  | .addHttpFrontend => "AddHttpFrontend" | .removeHttpFrontend => "RemoveHttpFrontend"
  | .addHttpsFrontend => "AddHttpsFrontend" | .removeHttpsFrontend => "RemoveHttpsFrontend"
  | .addCertificate => "AddCertificate" | .replaceCertificate => "ReplaceCertificate"
  | .removeCertificate => "RemoveCertificate" | .addTcpFrontend => "AddTcpFrontend"
  | .removeTcpFrontend => "RemoveTcpFrontend" | .addBackend => "AddBackend"
  | .removeBackend => "RemoveBackend" | .addHttpListener => "AddHttpListener"
  | .addHttpsListener => "AddHttpsListener" | .addTcpListener => "AddTcpListener"
  | .removeListener => "RemoveListener" | .activateListener => "ActivateListener"
  | .deactivateListener => "DeactivateListener" | .queryClusterById => "QueryClusterById"
  | .queryClustersByDomain => "QueryClustersByDomain"
  | .queryClustersHashes => "QueryClustersHashes" | .queryMetrics => "QueryMetrics"
  | .softStop => "SoftStop" | .hardStop => "HardStop" | .configureMetrics => "ConfigureMetrics"
  | .logging => "Logging" | .returnListenSockets => "ReturnListenSockets"
  | .queryCertificatesFromTheState => "QueryCertificatesFromTheState"
  | .queryCertificatesFromWorkers => "QueryCertificatesFromWorkers"
  | .countRequests => "CountRequests" | .updateHttpListener => "UpdateHttpListener"
  | .updateHttpsListener => "UpdateHttpsListener" | .updateTcpListener => "UpdateTcpListener"
  | .setMaxConnectionsPerIp => "SetMaxConnectionsPerIp"
  | .queryMaxConnectionsPerIp => "QueryMaxConnectionsPerIp"
  | .setHealthCheck => "SetHealthCheck" | .removeHealthCheck => "RemoveHealthCheck"
  | .queryHealthChecks => "QueryHealthChecks" | .setMetricDetail => "SetMetricDetail"
  | .addUdpListener => "AddUdpListener" | .updateUdpListener => "UpdateUdpListener"
  | .addUdpFrontend => "AddUdpFrontend" | .removeUdpFrontend => "RemoveUdpFrontend"

def Kind.nameBytes (k : Kind) : List Nat := k.name.toList.map Char.toNat

/-! ## destinations (`Request::get_destinations`) -/

structure Dest where
  http : Bool
  https : Bool
  tcp : Bool
  udp : Bool
deriving DecidableEq, Repr

/-- `get_destinations`: the arms are re-extracted from command/src/request.rs
    on every run (`Consts.wkDest*`), so a moved variant re-checks every theorem. -/
def dests (k : Kind) : Dest :=
  let n := k.nameBytes
  if Consts.wkDestAll.contains n then ⟨true, true, true, true⟩
  else ⟨Consts.wkDestHttp.contains n, Consts.wkDestHttps.contains n,
        Consts.wkDestTcp.contains n, Consts.wkDestUdp.contains n⟩

/-- results of the four proxies' `notify` for one request -/
structure ProxyResults where
  http : Status
  https : Status
  tcp : Status
  udp : Status
deriving DecidableEq, Repr

/-- the fold in `notify_proxys`: a later proxy's response replaces the current
    one iff it is a failure or there is none yet -/
def aggStep (cur : Option Status) (destined : Bool) (r : Status) : Option Status :=
  if destined then
    (if r = .failure ∨ cur = none then some r else cur)
  else cur

def aggregate (d : Dest) (r : ProxyResults) : Option Status :=
  aggStep (aggStep (aggStep (aggStep none d.http r.http) d.https r.https) d.tcp r.tcp) d.udp r.udp

/-- everything outside `notify`/`notify_proxys` that decides a response -/
structure Env where
  /-- outcome of the worker-level handler (ConfigureMetrics enum valid, metrics
      query, lease outcome, certificate found, scm send) -/
  workerOk : Bool
  /-- QueryCertificatesFromWorkers carries a fingerprint filter -/
  fingerprint : Bool
  /-- `validate_health_check_config` passes (AddCluster / SetHealthCheck) -/
  hcValid : Bool
  proxies : ProxyResults
  /-- result of `notify_add_*_listener` / `notify_update_*_listener` /
      `notify_activate_listener` / `notify_deactivate_listener` -/
  listenerOk : Bool
  /-- `ListenerType::try_from(remove.proxy)` of a RemoveListener -/
  listenerType : Option LType
  /-- SoftStop: `slab.len() <= base_sessions_count` is eventually reached and
      this id is still the one stored in `shutting_down` -/
  drained : Bool
deriving DecidableEq, Repr

def st (b : Bool) : Status := if b then .ok else .failure

def proxyOf (t : LType) (r : ProxyResults) : Status :=
  match t with
  | .http => r.http | .https => r.https | .tcp => r.tcp | .udp => r.udp

/-- the response pushed after the fan-out loop -/
def fanout (k : Kind) (e : Env) : List Status :=
  match aggregate (dests k) e.proxies with
  | some r => [r]
  | none => []

/-- the second `match` of `notify_proxys` (listener verbs) -/
def listenerTail (k : Kind) (e : Env) : List Status :=
  match k with
  | .addHttpListener | .addHttpsListener | .addTcpListener | .addUdpListener
  | .updateHttpListener | .updateHttpsListener | .updateTcpListener | .updateUdpListener
  | .activateListener | .deactivateListener => [st e.listenerOk]
  | .removeListener =>
    match e.listenerType with
    | some t => [proxyOf t e.proxies]
    | none => [.failure]
  -- a request type that no proxy answered and that is not a listener verb is
  -- refused ("unsupported request type for a worker"), not ignored
  | _ => if (aggregate (dests k) e.proxies).isSome then [] else [.failure]

/-- `Server::notify_proxys` (after `config_state.dispatch`, whose result is ignored) -/
def notifyProxys (k : Kind) (e : Env) : List Status :=
  match k with
  | .addCluster => if e.hcValid then fanout k e ++ listenerTail k e else [.failure]
  | .setHealthCheck => if e.hcValid then [.ok] else [.failure]
  | .removeHealthCheck | .addBackend | .removeBackend => [.ok]
  | _ => fanout k e ++ listenerTail k e

/-- `Server::notify`: the worker-level verbs push one response and return -/
def notify (k : Kind) (e : Env) : List Status :=
  match k with
  | .configureMetrics | .queryMetrics | .setMetricDetail => [st e.workerOk]
  | .logging | .queryClustersHashes | .setMaxConnectionsPerIp | .queryMaxConnectionsPerIp
  | .queryClustersByDomain | .queryClusterById => [.ok]
  | .queryCertificatesFromWorkers => if e.fingerprint then [st e.workerOk] else notifyProxys k e
  | _ => notifyProxys k e

/-- `read_channel_messages_and_notify` + the SoftStop completion in
    `shut_down_sessions`: the statuses that reach the channel for this id.
    HardStop: what `notify` queued (the proxies' Processing) is written out, then
    the OK, then the run loop returns. -/
def respond (k : Kind) (e : Env) : List Status :=
  match k with
  | .hardStop => notify k e ++ [.ok]
  | .returnListenSockets => [st e.workerOk]
  | .softStop => notify k e ++ (if e.drained then [.ok] else [])
  | _ => notify k e

def finals (l : List Status) : List Status := l.filter (· ≠ .processing)

/-- one readable event of the command channel: `read_channel_messages_and_notify`
    handles the requests it can read one after the other; the responses wait in
    the thread-local QUEUE and are flushed after the loop. A HardStop flushes the
    queue itself, writes its OK and makes the run loop return: the requests
    behind it in the channel are never read (the worker is gone). The result
    lists the responses of the requests that were read. -/
def batchDelivered (rs : List (Kind × Env)) : List (List Status) :=
  match rs.findIdx? (fun r => r.1 == .hardStop) with
  | some j => (rs.take (j + 1)).map fun r => respond r.1 r.2
  | none => rs.map fun r => respond r.1 r.2

/-- whether `notify` reaches `notify_proxys` (and therefore `config_state.dispatch`) -/
def reachesDispatch (k : Kind) (fingerprint : Bool) : Bool :=
  match k with
  | .configureMetrics | .queryMetrics | .setMetricDetail | .logging | .queryClustersHashes
  | .setMaxConnectionsPerIp | .queryMaxConnectionsPerIp | .queryClustersByDomain
  | .queryClusterById | .returnListenSockets => false
  | .queryCertificatesFromWorkers => !fingerprint
  | _ => true

/-! ## which kinds a main process forwards (bin/src/command/requests.rs) -/

/-- `ConfigState::dispatch` has a handler or the pass-through `Ok(())` arm:
    exactly the kinds `load_state` scatters (`if server.state.dispatch(..).is_ok()`) -/
def dispatchable (k : Kind) : Bool :=
  Consts.wkDispatchHandled.contains k.nameBytes || Consts.wkDispatchPassthrough.contains k.nameBytes

/-- kinds that reach a worker through a scatter site that names them:
    `worker_request`, `query_clusters`, `query_metrics`, `stop`, `set_logging_level`,
    `status`, `set_metric_detail_request`, `upgrade_worker` (ReturnListenSockets) -/
def scatterDirect (k : Kind) : Bool :=
  Consts.wkScatterWorkerRequest.contains k.nameBytes
  || Consts.wkScatterQueryClusters.contains k.nameBytes
  || k = .queryMetrics || k = .softStop || k = .hardStop || k = .logging || k = .status
  || k = .setMetricDetail || k = .setMaxConnectionsPerIp || k = .queryMaxConnectionsPerIp
  || k = .returnListenSockets

/-- everything some path of the main process can put on a worker channel -/
def forwardable (k : Kind) : Bool := scatterDirect k || dispatchable k

/-! ## the configuration view (`ConfigState`, the part `cluster_state` exposes) -/

structure Front where
  addr : Nat
  /-- hostname;path-kind+path;method — the `Display` key without the address -/
  key : Nat
  cluster : Nat
deriving DecidableEq, Repr

structure VListener where
  ty : LType
  addr : Nat
  active : Bool
deriving DecidableEq, Repr

structure View where
  /-- (cluster id, routing knobs): AddCluster is an upsert, the newest configuration
      replaces the previous one. Knobs: bit 0 `https_redirect`, bit 1 `sticky_session`. -/
  clusters : List (Nat × Nat)
  httpFronts : List Front
  httpsFronts : List Front
  /-- (cluster, address) -/
  tcpFronts : List (Nat × Nat)
  udpFronts : List (Nat × Nat)
  /-- (cluster, backend id, address) -/
  backends : List (Nat × Nat × Nat)
  listeners : List VListener
  /-- addresses that own a certificate bucket -/
  certBuckets : List Nat
  /-- (address, certificate id): `certificates[address][fingerprint]` -/
  certs : List (Nat × Nat)
deriving DecidableEq, Repr

def View.empty : View := ⟨[], [], [], [], [], [], [], [], []⟩

/-- one command, with the facts about its payload that decide any branch -/
inductive Op
  /-- a kind whose payload decides nothing here (Status, Logging, queries, the
      main-only kinds, `none`) ; `ok` = outcome of the worker-level handler -/
  | plain (k : Kind) (ok : Bool)
  /-- `tplValid = false`: the cluster carries a custom answer template that does
      not parse (the HTTP and HTTPS proxies compile it for each of their listeners) -/
  | addCluster (c : Nat) (hcValid : Bool) (tplValid : Bool) (knobs : Nat)
  | removeCluster (c : Nat)
  | addBackend (c b a : Nat)
  | removeBackend (c b a : Nat)
  | setHealthCheck (c : Nat) (valid : Bool)
  | removeHealthCheck (c : Nat)
  /-- `valid = false`: the listener config cannot be built (bad answer template) -/
  | addListener (t : LType) (a : Nat) (valid : Bool)
  | updateListener (t : LType) (a : Nat) (valid : Bool)
  /-- `t = none`: the `proxy` field is not a `ListenerType` -/
  | activate (t : Option LType) (a : Nat)
  | deactivate (t : Option LType) (a : Nat)
  | removeListener (t : Option LType) (a : Nat)
  /-- `badRegex`: REGEX path that does not compile; `equals`: EQUALS path kind (no
      special case since `PathRule::eq` compares EQUALS rules);
      `hsts`: carries an `hsts` block; `badPos`: `position` is not a `RulePosition` -/
  | addFront (tls : Bool) (f : Front) (badRegex equals hsts badPos : Bool)
  | removeFront (tls : Bool) (f : Front) (badRegex equals badPos : Bool)
  | addL4Front (udp : Bool) (a c : Nat)
  | removeL4Front (udp : Bool) (a c : Nat)
  /-- `id`: which certificate (its fingerprint) -/
  | addCert (a : Nat) (id : Nat) (valid : Bool)
  | removeCert (a : Nat) (id : Nat) (hexValid : Bool)
  | replaceCert (a : Nat) (old : Nat) (hexValid : Bool) (new : Nat) (newValid : Bool)
  /-- QueryCertificatesFromWorkers: with a fingerprint filter (answered from the
      view: found iff some address holds certificate `id`; mode 1) or without (mode 0
      all, mode 2 by domain: answered by the HTTPS proxy) -/
  | queryCerts (mode : Nat) (id : Nat)
  /-- SetMetricDetail: `client` lease key (`longId`: longer than 64 bytes), `clear`,
      `detail` 0 absent / 1 valid / 2 not a `MetricDetail`, `ttlOver`: ttl above
      LEASE_TTL_MAX, peer binding (`known`: pid and session ulid both present; `peer`) -/
  | setDetail (client : Nat) (longId clear : Bool) (detail : Nat) (ttlOver known : Bool) (peer : Nat)
  | queryCluster (c : Nat)
deriving DecidableEq, Repr

def Op.kind : Op → Kind
  | .plain k _ => k
  | .addCluster .. => .addCluster
  | .removeCluster .. => .removeCluster
  | .addBackend .. => .addBackend
  | .removeBackend .. => .removeBackend
  | .setHealthCheck .. => .setHealthCheck
  | .removeHealthCheck .. => .removeHealthCheck
  | .addListener t _ _ =>
    match t with
    | .http => .addHttpListener | .https => .addHttpsListener
    | .tcp => .addTcpListener | .udp => .addUdpListener
  | .updateListener t _ _ =>
    match t with
    | .http => .updateHttpListener | .https => .updateHttpsListener
    | .tcp => .updateTcpListener | .udp => .updateUdpListener
  | .activate .. => .activateListener
  | .deactivate .. => .deactivateListener
  | .removeListener .. => .removeListener
  | .addFront tls .. => if tls then .addHttpsFrontend else .addHttpFrontend
  | .removeFront tls .. => if tls then .removeHttpsFrontend else .removeHttpFrontend
  | .addL4Front udp .. => if udp then .addUdpFrontend else .addTcpFrontend
  | .removeL4Front udp .. => if udp then .removeUdpFrontend else .removeTcpFrontend
  | .addCert .. => .addCertificate
  | .removeCert .. => .removeCertificate
  | .replaceCert .. => .replaceCertificate
  | .queryCerts .. => .queryCertificatesFromWorkers
  | .setDetail .. => .setMetricDetail
  | .queryCluster .. => .queryClusterById

def frontKeyEq (f g : Front) : Bool := f.addr == g.addr && f.key == g.key

def hasCluster (v : View) (c : Nat) : Bool := v.clusters.any (·.1 == c)

def hasListener (v : View) (t : LType) (a : Nat) : Bool :=
  v.listeners.any fun l => l.ty == t && l.addr == a

def setActive (v : View) (t : LType) (a : Nat) (b : Bool) : View :=
  { v with listeners := v.listeners.map fun l =>
      if l.ty == t && l.addr == a then { l with active := b } else l }

/-- `ConfigState::dispatch`: the new view and whether the command was accepted
    (`Ok`). A rejected command leaves the view as it was. -/
def dispatchView (v : View) (op : Op) : View × Bool :=
  match op with
  | .plain k _ => (v, Consts.wkDispatchPassthrough.contains k.nameBytes)
  | .queryCerts .. => (v, true)
  | .setDetail .. => (v, true)
  | .queryCluster _ => (v, true)
  | .addCluster c hcValid _ knobs =>
    if hcValid then ({ v with clusters := (c, knobs) :: v.clusters.filter (·.1 ≠ c) }, true)
    else (v, false)
  | .removeCluster c =>
    if hasCluster v c then ({ v with clusters := v.clusters.filter (·.1 ≠ c) }, true)
    else (v, false)
  | .setHealthCheck c valid => (v, valid && hasCluster v c)
  | .removeHealthCheck c => (v, hasCluster v c)
  | .addBackend c b a =>
    ({ v with backends := (c, b, a) :: v.backends.filter (· ≠ (c, b, a)) }, true)
  | .removeBackend c b a =>
    if v.backends.contains (c, b, a) then
      ({ v with backends := v.backends.filter (· ≠ (c, b, a)) }, true)
    else (v, false)
  | .addListener t a _ =>
    if hasListener v t a then (v, false)
    else ({ v with listeners := ⟨t, a, false⟩ :: v.listeners }, true)
  | .updateListener t a valid => (v, valid && hasListener v t a)
  | .activate t a =>
    match t with
    | some t => if hasListener v t a then (setActive v t a true, true) else (v, false)
    | none => (v, false)
  | .deactivate t a =>
    match t with
    | some t => if hasListener v t a then (setActive v t a false, true) else (v, false)
    | none => (v, false)
  | .removeListener t a =>
    match t with
    | some t =>
      if hasListener v t a then
        ({ v with listeners := v.listeners.filter fun l => !(l.ty == t && l.addr == a) }, true)
      else (v, false)
    | none => (v, false)
  | .addFront tls f _ _ _ badPos =>
    let fs := if tls then v.httpsFronts else v.httpFronts
    if fs.any (frontKeyEq f) then (v, false)
    else if badPos then (v, false)
    else if tls then ({ v with httpsFronts := f :: v.httpsFronts }, true)
    else ({ v with httpFronts := f :: v.httpFronts }, true)
  | .removeFront tls f _ _ _ =>
    let fs := if tls then v.httpsFronts else v.httpFronts
    if fs.any (frontKeyEq f) then
      (if tls then { v with httpsFronts := v.httpsFronts.filter (fun g => !frontKeyEq f g) }
       else { v with httpFronts := v.httpFronts.filter (fun g => !frontKeyEq f g) }, true)
    else (v, false)
  | .addL4Front udp a c =>
    let fs := if udp then v.udpFronts else v.tcpFronts
    if fs.contains (c, a) then (v, false)
    else if udp then ({ v with udpFronts := (c, a) :: v.udpFronts }, true)
    else ({ v with tcpFronts := (c, a) :: v.tcpFronts }, true)
  | .removeL4Front udp a c =>
    let fs := if udp then v.udpFronts else v.tcpFronts
    if fs.contains (c, a) then
      (if udp then { v with udpFronts := v.udpFronts.filter (· ≠ (c, a)) }
       else { v with tcpFronts := v.tcpFronts.filter (· ≠ (c, a)) }, true)
    else (v, false)
  | .addCert a id valid =>
    if valid then
      ({ v with certBuckets := a :: v.certBuckets.filter (· ≠ a),
                certs := (a, id) :: v.certs.filter (· ≠ (a, id)) }, true)
    else (v, false)
  | .removeCert a id hexValid =>
    if hexValid then ({ v with certs := v.certs.filter (· ≠ (a, id)) }, true) else (v, false)
  | .replaceCert a old hexValid new newValid =>
    if hexValid && v.certBuckets.contains a && newValid then
      ({ v with certs := (a, new) :: (v.certs.filter (· ≠ (a, old))).filter (· ≠ (a, new)) }, true)
    else (v, false)

/-! ## the worker -/

/-- one entry of a proxy's `listeners` map. The maps are keyed by the slab token
    the listener got when it was added, not by address: the same address can be
    added twice (two entries), and a token freed by a DeactivateListener is handed
    out again by the slab although the deactivated listener still owns it in its
    proxy's map. -/
structure PListener where
  ty : LType
  addr : Nat
  token : Nat
  /-- a listening socket is held -/
  active : Bool
  /-- HTTP/HTTPS router: (frontend key, EQUALS path kind) of every tree rule -/
  routes : List (Nat × Bool)
  /-- TCP/UDP: `listener.cluster_id` -/
  cluster : Option Nat
deriving DecidableEq, Repr

structure WState where
  view : View
  /-- newest first; `find(|l| l.address == a)` over a `HashMap` picks an
      unspecified entry when an address was added twice: the model takes the
      newest and the harness does not aim at such an address again -/
  listeners : List PListener
  /-- `HttpProxy::clusters`: the cluster configurations the plain-HTTP proxy routes
      with (id, knobs); an AddCluster the proxy refuses does not reach it -/
  httpClusters : List (Nat × Nat)
  /-- the metric-detail lease table: (client id, binding known, peer) -/
  leases : List (Nat × Bool × Nat)
  /-- `max_connections` (decides `at_capacity`) -/
  maxConn : Nat
  /-- slab keys holding a `ListenSession` placeholder -/
  slab : List Nat
  /-- the slab's free list (last freed first) -/
  free : List Nat
  /-- the slab's length (next key when the free list is empty); 3 initially:
      channel, timer, metrics -/
  next : Nat
  /-- `base_sessions_count` minus its initial value 3 -/
  baseOff : Int
  /-- a stop verb was handled: the run loop returned (HardStop, drained SoftStop)
      or the worker waits for sessions that never end; later commands are not modelled -/
  stopped : Bool
deriving DecidableEq, Repr

def WState.init : WState := ⟨View.empty, [], [], [], 10000, [], [], 3, 0, false⟩

/-- a worker started with `max_connections = n` -/
def WState.initWith (n : Nat) : WState := { WState.init with maxConn := n }

/-- `SessionManager::at_capacity`: `slab.len() >= 10 + 2 * max_connections` (no client
    session open: the slab holds the 3 system entries and the listener placeholders) -/
def atCapacity (s : WState) : Bool :=
  3 + s.slab.length ≥ Consts.sessAcceptBase + Consts.sessAcceptFactor * s.maxConn

/-- SetMetricDetail as coded in `Server::notify` + `Aggregator::lease_apply/lease_clear`:
    the new lease table and whether the answer is OK -/
def setDetailStep (leases : List (Nat × Bool × Nat)) (client : Nat) (longId clear : Bool)
    (detail : Nat) (ttlOver known : Bool) (peer : Nat) : List (Nat × Bool × Nat) × Bool :=
  let entry := leases.find? (·.1 == client)
  -- `entry.binding.is_known() && !entry.binding.matches(&presented)`
  let refused := match entry with
    | some e => e.2.1 && !(known && e.2.2 == peer)
    | none => false
  if clear then
    if longId then (leases, false)
    else match entry with
      | none => (leases, true)
      | some _ => if refused then (leases, false) else (leases.filter (·.1 != client), true)
  else if detail != 1 then (leases, false)
  else if ttlOver then (leases, false)
  else if longId then (leases, false)
  else if entry.isNone && leases.length ≥ Consts.wkLeaseTableCap then (leases, false)
  else if refused then (leases, false)
  else ((client, known, peer) :: leases.filter (·.1 != client), true)

def findL (s : WState) (t : LType) (a : Nat) : Option PListener :=
  s.listeners.find? fun l => l.ty == t && l.addr == a

/-- update the entry `findL` returns -/
def mapL (s : WState) (t : LType) (a : Nat) (f : PListener → PListener) : WState :=
  match findL s t a with
  | some l0 => { s with listeners := s.listeners.map fun l => if l == l0 then f l else l }
  | none => s

/-- `slab.vacant_key()` -/
def vacantKey (s : WState) : Nat :=
  match s.free with
  | k :: _ => k
  | [] => s.next

/-- `ListenSession` entries currently in the slab -/
def slabListeners (s : WState) : Nat := s.slab.length

/-- initial `base_sessions_count`: the channel, timer and metrics placeholders -/
def baseInit : Int := 3

/-- `new_sessions_count <= self.base_sessions_count` with no client session
    open; `base_sessions_count` is a `usize` decremented without a check, so a
    negative value wraps to a huge one -/
def drainedNow (s : WState) : Bool :=
  baseInit + s.baseOff < 0 || (baseInit + (slabListeners s : Int) ≤ baseInit + s.baseOff)

def allOk : ProxyResults := ⟨.ok, .ok, .ok, .ok⟩

def envOf (workerOk fingerprint hcValid : Bool) (p : ProxyResults) (listenerOk : Bool)
    (lt : Option LType) (drained : Bool) : Env :=
  ⟨workerOk, fingerprint, hcValid, p, listenerOk, lt, drained⟩

def setProxy (t : LType) (r : Status) : ProxyResults :=
  match t with
  | .http => { allOk with http := r } | .https => { allOk with https := r }
  | .tcp => { allOk with tcp := r } | .udp => { allOk with udp := r }

/-- the proxies answer `Processing` to SoftStop (all four) and to HardStop
    (HTTP and HTTPS; TCP and UDP say Ok) -/
def stopResults (hard : Bool) : ProxyResults :=
  if hard then ⟨.processing, .processing, .ok, .ok⟩
  else ⟨.processing, .processing, .processing, .processing⟩

/-- the answer of a proxy that does not know the verb (`UnsupportedMessage`) -/
def unsupported : ProxyResults := ⟨.failure, .failure, .failure, .failure⟩

/-- `ClusterInformation` (keys only) -/
structure ClusterInfo where
  known : Bool
  /-- `configuration`: the routing knobs of the newest AddCluster -/
  knobs : Nat
  http : List Front
  https : List Front
  tcp : List Nat
  udp : List Nat
  backends : List (Nat × Nat)
deriving DecidableEq, Repr

structure Out where
  resp : List Status
  /-- `ConfigState::dispatch` accepted the command (what a main process checks
      before it forwards) -/
  accepted : Bool
  /-- QueryClusterById: the answer's content, `none` for other commands -/
  info : Option ClusterInfo
deriving DecidableEq, Repr

/-- `cluster_state` -/
def clusterInfo (v : View) (c : Nat) : ClusterInfo :=
  match v.clusters.find? (·.1 == c) with
  | some cfg =>
    ⟨true, cfg.2, v.httpFronts.filter (·.cluster == c), v.httpsFronts.filter (·.cluster == c),
     (v.tcpFronts.filter (·.1 == c)).map (·.2), (v.udpFronts.filter (·.1 == c)).map (·.2),
     (v.backends.filter (·.1 == c)).map fun x => (x.2.1, x.2.2)⟩
  | none => ⟨false, 0, [], [], [], [], []⟩

/-- the proxy-side effect and results of one command: new worker state (view
    untouched) and the `Env` the handlers see -/
def proxyStep (s : WState) (op : Op) : WState × Env :=
  match op with
  | .plain k ok =>
    match k with
    | .softStop =>
      ({ s with listeners := [] },
       envOf ok false true (stopResults false) true none (drainedNow s))
    | .hardStop => ({ s with listeners := [] }, envOf ok false true (stopResults true) true none false)
    | .returnListenSockets =>
      ({ s with listeners := s.listeners.map fun l => { l with active := false } },
       envOf ok false true allOk true none false)
    | .status => (s, envOf ok false true allOk true none false)
    | _ => (s, envOf ok false true unsupported true none false)
  | .queryCerts mode id =>
    (s, envOf (s.view.certs.any (·.2 == id)) (mode == 1) true allOk true none false)
  | .setDetail client longId clear detail ttlOver known peer =>
    let r := setDetailStep s.leases client longId clear detail ttlOver known peer
    ({ s with leases := r.1 }, envOf r.2 false true unsupported true none false)
  | .queryCluster _ => (s, envOf true false true unsupported true none false)
  | .addCluster c hcValid tplValid knobs =>
    -- `add_cluster_answers` runs once per listener of the HTTP / HTTPS proxy
    let h := if !tplValid && s.listeners.any (fun l => l.ty == .http) then Status.failure else .ok
    let hs := if !tplValid && s.listeners.any (fun l => l.ty == .https) then Status.failure else .ok
    -- `self.clusters.insert(..)` (an upsert) only when the templates compiled
    let s' := if hcValid && h == .ok then
                { s with httpClusters := (c, knobs) :: s.httpClusters.filter (·.1 ≠ c) }
              else s
    (s', envOf true false hcValid ⟨h, hs, .ok, .ok⟩ true none false)
  | .removeCluster c =>
    ({ s with httpClusters := s.httpClusters.filter (·.1 ≠ c) }, envOf true false true allOk true none false)
  | .addBackend .. | .removeBackend .. | .removeHealthCheck _ =>
    (s, envOf true false true unsupported true none false)
  | .setHealthCheck _ valid => (s, envOf true false valid unsupported true none false)
  | .addListener t a valid =>
    let tok := vacantKey s
    -- `self.listeners.entry(token)`: occupied when a deactivated listener of the
    -- same proxy still owns the recycled token
    -- "session list is full, cannot add a listener" comes first
    if !atCapacity s && valid && !(s.listeners.any fun l => l.ty == t && l.token == tok) then
      ({ s with baseOff := s.baseOff + 1,
                listeners := ⟨t, a, tok, false, [], none⟩ :: s.listeners,
                slab := tok :: s.slab,
                free := s.free.drop 1,
                next := if s.free.isEmpty then s.next + 1 else s.next },
       envOf true false true allOk true none false)
    else (s, envOf true false true allOk false none false)
  | .updateListener t a valid =>
    (s, envOf true false true allOk (valid && (findL s t a).isSome) none false)
  | .activate t a =>
    match t with
    | some t =>
      match findL s t a with
      | some _ => (mapL s t a fun l => { l with active := true }, envOf true false true allOk true none false)
      | none => (s, envOf true false true allOk false none false)
    | none => (s, envOf true false true allOk false none false)
  | .deactivate t a =>
    match t with
    | some t =>
      match findL s t a with
      | some l =>
        if l.active then
          -- `if sessions.slab.contains(token.0) { sessions.slab.remove(token.0) }`
          let s' := if s.slab.contains l.token then
                      { s with slab := s.slab.filter (· ≠ l.token), free := l.token :: s.free }
                    else s
          (mapL s' t a fun l => { l with active := false },
           envOf true false true allOk true none false)
        else (s, envOf true false true allOk false none false)
      | none => (s, envOf true false true allOk false none false)
    | none => (s, envOf true false true allOk false none false)
  | .removeListener t a =>
    -- `base_sessions_count -= 1` before anything is looked up
    let s := { s with baseOff := s.baseOff - 1 }
    match t with
    | some t =>
      match findL s t a with
      | some _ =>
        -- every entry at this address goes; their slab placeholders stay
        ({ s with listeners := s.listeners.filter (fun x => !(x.ty == t && x.addr == a)) },
         envOf true false true allOk true (some t) false)
      | none =>
        -- HTTP and HTTPS `remove_listener` answer Ok when nothing was removed
        -- (`!self.listeners.len() < len`); TCP and UDP answer an error
        (s, envOf true false true
              (match t with
               | .http | .https => allOk
               | .tcp | .udp => setProxy t .failure) true (some t) false)
    | none => (s, envOf true false true allOk true none false)
  | .addFront tls f badRegex equals hsts badPos =>
    let t := if tls then LType.https else LType.http
    let fail := (s, envOf true false true (setProxy t .failure) true none false)
    if (!tls && hsts) || badPos then fail
    else match findL s t f.addr with
      | none => fail
      | some l =>
        if badRegex then fail
        -- same (hostname, path rule, method) already in the tree: `AddRoute` error
        else if l.routes.any (fun r => r.1 == f.key) then fail
        else (mapL s t f.addr fun l => { l with routes := (f.key, equals) :: l.routes },
              envOf true false true allOk true none false)
  | .removeFront tls f badRegex _ badPos =>
    let t := if tls then LType.https else LType.http
    let fail := (s, envOf true false true (setProxy t .failure) true none false)
    if badPos then fail
    else match findL s t f.addr with
      | none => fail
      | some _ =>
        if badRegex then fail
        -- `remove_tree_rule` answers true whether or not a rule was there
        else (mapL s t f.addr fun l => { l with routes := l.routes.filter (fun r => !(r.1 == f.key)) },
              envOf true false true allOk true none false)
  | .addL4Front udp a c =>
    let t := if udp then LType.udp else LType.tcp
    match findL s t a with
    | some _ => (mapL s t a fun l => { l with cluster := some c }, envOf true false true allOk true none false)
    | none => (s, envOf true false true (setProxy t .failure) true none false)
  | .removeL4Front udp a _ =>
    let t := if udp then LType.udp else LType.tcp
    match findL s t a with
    | some _ => (mapL s t a fun l => { l with cluster := none }, envOf true false true allOk true none false)
    | none => (s, envOf true false true (setProxy t .failure) true none false)
  | .addCert a _ valid =>
    (s, envOf true false true
          (if valid && (findL s .https a).isSome then allOk else setProxy .https .failure) true none false)
  | .removeCert a _ hexValid =>
    (s, envOf true false true
          (if hexValid && (findL s .https a).isSome then allOk else setProxy .https .failure) true none false)
  | .replaceCert a _ _ _ newValid =>
    (s, envOf true false true
          (if newValid && (findL s .https a).isSome then allOk else setProxy .https .failure) true none false)

/-- QueryCertificatesFromWorkers with a fingerprint filter is answered by `notify` itself -/
def fingerprintOf (op : Op) : Bool :=
  match op with
  | .queryCerts mode _ => mode == 1
  | _ => false

/-- one command on a running worker -/
def step (s : WState) (op : Op) : WState × Out :=
  if s.stopped then (s, ⟨[], false, none⟩) else
  let k := op.kind
  let fingerprint := fingerprintOf op
  -- `config_state.dispatch` first, result ignored
  let (v', acc) := dispatchView s.view op
  let view := if reachesDispatch k fingerprint then v' else s.view
  let (s1, e) := proxyStep s op
  let resp := respond k e
  let info := match op with | .queryCluster c => some (clusterInfo s.view c) | _ => none
  let stopped := k == .hardStop || k == .softStop
  ({ s1 with view := view, stopped := stopped }, ⟨resp, acc, info⟩)

/-- the worker's `config_state` after one command (`dispatch` result ignored) -/
def workerViewStep (v : View) (op : Op) : View :=
  if reachesDispatch op.kind (fingerprintOf op) then (dispatchView v op).1 else v

def isStop (op : Op) : Bool := op.kind == .softStop || op.kind == .hardStop

/-- the requests a worker handles out of `ops` — everything up to and including the
    first stop verb, nothing behind it — each with the state it found and what it
    answered. With distinct request ids, the responses carrying the id of the
    i-th handled request are exactly `resp` of the i-th entry. -/
def trace : WState → List Op → List (WState × Op × Out)
  | _, [] => []
  | s, op :: rest =>
    if s.stopped then [] else (s, op, (step s op).2) :: trace (step s op).1 rest

/-- the ops up to and including the first stop verb -/
def untilStop : List Op → List Op
  | [] => []
  | op :: rest => if isStop op then [op] else op :: untilStop rest

def runState (s : WState) (ops : List Op) : WState :=
  ops.foldl (fun s op => (step s op).1) s

def run (s : WState) (ops : List Op) : WState × List Out :=
  ops.foldl (fun (acc : WState × List Out) op =>
    let (s', o) := step acc.1 op
    (s', acc.2 ++ [o])) (s, [])

/-! ## the main process' side -/

/-- the main process dispatches every client command on its own state
    (`worker_request`, `load_state`, `load_static_config`) -/
def masterRun (v : View) (ops : List Op) : View :=
  ops.foldl (fun v op => (dispatchView v op).1) v

/-- ... and forwards to the workers exactly the commands its state accepted -/
def forwarded : View → List Op → List Op
  | _, [] => []
  | v, op :: rest =>
    if (dispatchView v op).2 then op :: forwarded (dispatchView v op).1 rest
    else forwarded (dispatchView v op).1 rest

/-! ## behaviour: what the proxies really serve -/

/-- HTTP(S) routes the proxies hold: (tls, address, frontend key) -/
def servedRoutes (s : WState) : List (Bool × Nat × Nat) :=
  s.listeners.flatMap fun l =>
    match l.ty with
    | .http => l.routes.map fun r => (false, l.addr, r.1)
    | .https => l.routes.map fun r => (true, l.addr, r.1)
    | _ => []

/-- HTTP(S) routes the view shows -/
def viewRoutes (v : View) : List (Bool × Nat × Nat) :=
  v.httpFronts.map (fun f => (false, f.addr, f.key)) ++ v.httpsFronts.map (fun f => (true, f.addr, f.key))

end Sozu.Worker
