import Sozu.Timer.Model
/-
Helper lemmas for `Sozu.Timer.Props`: the reachable-state invariant of the
wheel and its preservation by every operation.
-/
namespace Sozu.Timer

/-- Every pending entry is at or after the wheel's tick; the ones due exactly
    now are still ahead of the cursor; slab keys are unique. -/
structure Inv (t : T) : Prop where
  ge : ∀ e ∈ t.items, t.tick ≤ e.tick
  due : ∀ e ∈ t.items, e.tick = t.tick → e.tok ∈ t.todo
  nodup : (t.items.map (·.tok)).Nodup
  used : ∀ e ∈ t.items, e.tok < t.cap ∧ e.tok ∉ t.free
  freeNodup : t.free.Nodup
  freeLt : ∀ k ∈ t.free, k < t.cap

theorem findTok_some {items : List Entry} {k : Nat} {e : Entry}
    (h : findTok items k = some e) : e ∈ items ∧ e.tok = k := by
  unfold findTok at h
  refine ⟨List.mem_of_find?_eq_some h, ?_⟩
  have := List.find?_some h
  simpa using this

theorem findTok_mem_nodup {items : List Entry} {e : Entry}
    (hm : e ∈ items) (hn : (items.map (·.tok)).Nodup) : findTok items e.tok = some e := by
  induction items with
  | nil => cases hm
  | cons x xs ih =>
    simp only [List.map_cons, List.nodup_cons] at hn
    unfold findTok
    rw [List.find?_cons]
    by_cases hx : x.tok = e.tok
    · have : x = e := by
        rcases List.mem_cons.1 hm with h | h
        · exact h.symm
        · exact absurd (List.mem_map.2 ⟨e, h, rfl⟩) (hx ▸ hn.1)
      subst this
      simp
    · have hne : (x.tok == e.tok) = false := by simpa using hx
      rw [hne]
      rcases List.mem_cons.1 hm with h | h
      · exact absurd (h ▸ rfl) hx
      · exact ih h hn.2

theorem mem_removeTok {items : List Entry} {k : Nat} {x : Entry} :
    x ∈ removeTok items k ↔ x ∈ items ∧ x.tok ≠ k := by
  unfold removeTok
  simp [List.mem_filter]

theorem nodup_removeTok {items : List Entry} (k : Nat)
    (hn : (items.map (·.tok)).Nodup) : ((removeTok items k).map (·.tok)).Nodup := by
  unfold removeTok
  exact List.Nodup.sublist (List.Sublist.map _ List.filter_sublist) hn

/-- What a scan of the cursor's remainder establishes. -/
theorem scan_fire {tick : Nat} {items : List Entry} :
    ∀ (todo : List Nat) (nt : Option Nat) {e : Entry} {rest : List Nat} {nt' : Option Nat},
      scan tick items todo nt = .fire e rest nt' →
      e ∈ items ∧ e.tick ≤ tick ∧
      ∃ pre, todo = pre ++ e.tok :: rest ∧
        ∀ k ∈ pre, ∀ x, findTok items k = some x → tick < x.tick := by
  intro todo
  induction todo with
  | nil => intro nt e rest nt' h; simp [scan] at h
  | cons k ks ih =>
    intro nt e rest nt' h
    unfold scan at h
    split at h
    · next hf =>
      obtain ⟨h1, h2, pre, h3, h4⟩ := ih _ h
      refine ⟨h1, h2, k :: pre, by simp [h3], ?_⟩
      intro k' hk' x hx
      rcases List.mem_cons.1 hk' with h' | h'
      · subst h'; rw [hf] at hx; cases hx
      · exact h4 k' h' x hx
    · next e0 hf =>
      split at h
      · next hle =>
        cases h
        obtain ⟨hm, ht⟩ := findTok_some hf
        exact ⟨hm, hle, [], by simp [ht], by intro k' hk'; cases hk'⟩
      · next hgt =>
        obtain ⟨h1, h2, pre, h3, h4⟩ := ih _ h
        refine ⟨h1, h2, k :: pre, by simp [h3], ?_⟩
        intro k' hk' x hx
        rcases List.mem_cons.1 hk' with h' | h'
        · subst h'; rw [hf] at hx; cases hx; omega
        · exact h4 k' h' x hx

theorem scan_done {tick : Nat} {items : List Entry} :
    ∀ (todo : List Nat) (nt : Option Nat) {nt' : Option Nat},
      scan tick items todo nt = .done nt' →
      ∀ k ∈ todo, ∀ x, findTok items k = some x → tick < x.tick := by
  intro todo
  induction todo with
  | nil => intro nt nt' _ k hk; cases hk
  | cons k ks ih =>
    intro nt nt' h
    unfold scan at h
    split at h
    · next hf =>
      intro k' hk' x hx
      rcases List.mem_cons.1 hk' with h' | h'
      · subst h'; rw [hf] at hx; cases hx
      · exact ih _ h k' h' x hx
    · next e0 hf =>
      split at h
      · cases h
      · next hgt =>
        intro k' hk' x hx
        rcases List.mem_cons.1 hk' with h' | h'
        · subst h'; rw [hf] at hx; cases hx; omega
        · exact ih _ h k' h' x hx

/-- A poll step that fires. -/
theorem scanCurrent_some {t t' : T} {st : Nat} (hi : Inv t)
    (h : scanCurrent t = (some st, t')) :
    ∃ e ∈ t.items, e.st = st ∧ e.tick ≤ t.tick ∧ t'.items = removeTok t.items e.tok ∧
      t'.tick = t.tick ∧ Inv t' := by
  unfold scanCurrent at h
  split at h
  · cases h
  · next k ks htodo =>
    simp only at h
    split at h
    · next e rest nt hs =>
      cases h
      obtain ⟨hm, hle, pre, hpre, hsk⟩ := scan_fire _ _ hs
      refine ⟨e, hm, rfl, hle, rfl, rfl, ?_⟩
      constructor
      · intro x hx; exact hi.ge x (mem_removeTok.1 hx).1
      · intro x hx hxt
        obtain ⟨hxm, hxne⟩ := mem_removeTok.1 hx
        have hin := hi.due x hxm hxt
        rw [hpre] at hin
        show x.tok ∈ rest
        rcases List.mem_append.1 hin with h1 | h1
        · have := hsk _ h1 x (findTok_mem_nodup hxm hi.nodup)
          simp only at hxt; omega
        · rcases List.mem_cons.1 h1 with h2 | h2
          · exact absurd h2 hxne
          · exact h2
      · exact nodup_removeTok _ hi.nodup
      · intro x hx
        obtain ⟨hxm, hxne⟩ := mem_removeTok.1 hx
        refine ⟨(hi.used x hxm).1, ?_⟩
        intro hc
        rcases List.mem_cons.1 hc with h1 | h1
        · exact hxne h1
        · exact (hi.used x hxm).2 h1
      · exact List.nodup_cons.2 ⟨(hi.used e hm).2, hi.freeNodup⟩
      · intro k' hk'
        rcases List.mem_cons.1 hk' with h1 | h1
        · subst h1; exact (hi.used e hm).1
        · exact hi.freeLt k' h1
    · cases h

/-- A poll step that finds nothing due in the rest of the current slot. -/
theorem scanCurrent_none {t t' : T} (hi : Inv t) (h : scanCurrent t = (none, t')) :
    t'.items = t.items ∧ t'.tick = t.tick ∧ t'.todo = [] ∧ t'.free = t.free ∧ t'.cap = t.cap ∧
      t'.slots = t.slots ∧ ∀ e ∈ t.items, t.tick < e.tick := by
  unfold scanCurrent at h
  split at h
  · next htodo =>
    cases h
    refine ⟨rfl, rfl, htodo, rfl, rfl, rfl, ?_⟩
    intro e he
    have h1 := hi.ge e he
    rcases Nat.lt_or_ge t.tick e.tick with h2 | h2
    · exact h2
    · have := hi.due e he (by omega)
      rw [htodo] at this; cases this
  · next k ks htodo =>
    simp only at h
    split at h
    · cases h
    · next nt hs =>
      cases h
      refine ⟨rfl, rfl, rfl, rfl, rfl, rfl, ?_⟩
      intro e he
      have h1 := hi.ge e he
      rcases Nat.lt_or_ge t.tick e.tick with h2 | h2
      · exact h2
      · have hin := hi.due e he (by omega)
        have := scan_done _ _ hs _ hin e (findTok_mem_nodup he hi.nodup)
        exact this

/-- Advancing the tick over an exhausted slot. -/
theorem bump_inv {t : T} (hi : Inv t) (htodo : t.todo = []) (hlt : ∀ e ∈ t.items, t.tick < e.tick) :
    Inv (bump t) := by
  constructor
  · intro e he; exact hlt e he
  · intro e he het
    show e.tok ∈ List.map (fun x : Entry => x.tok) _
    refine List.mem_map.2 ⟨e, ?_, rfl⟩
    refine List.mem_filter.2 ⟨he, ?_⟩
    have : e.tick = t.tick + 1 := het
    simp [this]
  · exact hi.nodup
  · exact hi.used
  · exact hi.freeNodup
  · exact hi.freeLt

theorem bump_items (t : T) : (bump t).items = t.items := rfl
theorem bump_tick (t : T) : (bump t).tick = t.tick + 1 := rfl

theorem advance_some : ∀ (n : Nat) {t t' : T} {st : Nat}, Inv t →
    advance n t = (some st, t') →
    ∃ e ∈ t.items, e.st = st ∧ e.tick ≤ t'.tick ∧ t'.tick < t.tick + n ∧
      t'.items = removeTok t.items e.tok ∧ t.tick ≤ t'.tick ∧ Inv t' := by
  intro n
  induction n with
  | zero => intro t t' st _ h; simp [advance] at h
  | succ n ih =>
    intro t t' st hi h
    unfold advance at h
    split at h
    · next st0 t0 hs =>
      cases h
      obtain ⟨e, hm, hst, hle, hit, htk, hi'⟩ := scanCurrent_some hi hs
      exact ⟨e, hm, hst, by omega, by omega, hit, by omega, hi'⟩
    · next t0 hs =>
      obtain ⟨hit, htk, htd, _, _, _, hlt⟩ := scanCurrent_none hi hs
      have hi0 : Inv t0 := by
        constructor
        · intro e he; rw [hit] at he; rw [htk]; exact hi.ge e he
        · intro e he het; rw [hit] at he; rw [htk] at het
          have := hlt e he; omega
        · rw [hit]; exact hi.nodup
        · rename_i a b c
          intro e he; rw [hit] at he; rw [a, b]; exact hi.used e he
        · rename_i a b c; rw [a]; exact hi.freeNodup
        · rename_i a b c; rw [a, b]; exact hi.freeLt
      have hb := bump_inv hi0 htd (by intro e he; rw [hit] at he; rw [htk]; exact hlt e he)
      obtain ⟨e, hm, hst, hle, hlt', hit', hge', hi'⟩ := ih hb h
      rw [bump_items, hit] at hm hit'
      rw [bump_tick, htk] at hlt' hge'
      exact ⟨e, hm, hst, hle, by omega, hit', by omega, hi'⟩

theorem advance_none : ∀ (n : Nat) {t t' : T}, Inv t →
    advance n t = (none, t') →
    t'.items = t.items ∧ t'.tick = t.tick + n ∧ Inv t' := by
  intro n
  induction n with
  | zero => intro t t' hi h; simp [advance] at h; subst h; exact ⟨rfl, rfl, hi⟩
  | succ n ih =>
    intro t t' hi h
    unfold advance at h
    split at h
    · cases h
    · next t0 hs =>
      obtain ⟨hit, htk, htd, hf, hc, _, hlt⟩ := scanCurrent_none hi hs
      have hi0 : Inv t0 := by
        constructor
        · intro e he; rw [hit] at he; rw [htk]; exact hi.ge e he
        · intro e he het; rw [hit] at he; rw [htk] at het
          have := hlt e he; omega
        · rw [hit]; exact hi.nodup
        · intro e he; rw [hit] at he; rw [hf, hc]; exact hi.used e he
        · rw [hf]; exact hi.freeNodup
        · rw [hf, hc]; exact hi.freeLt
      have hb := bump_inv hi0 htd (by intro e he; rw [hit] at he; rw [htk]; exact hlt e he)
      obtain ⟨h1, h2, h3⟩ := ih hb h
      rw [bump_items, hit] at h1
      rw [bump_tick, htk] at h2
      exact ⟨h1, by omega, h3⟩

end Sozu.Timer

namespace Sozu.Timer

theorem inv_new (a b : Nat) : Inv (T.new a b) := by
  constructor <;> simp [T.new]

theorem alloc_fresh {t : T} (hi : Inv t) :
    (∀ e ∈ t.items, e.tok ≠ (alloc t).1) ∧ (alloc t).1 < (alloc t).2.2 ∧
    (alloc t).1 ∉ (alloc t).2.1 ∧ (alloc t).2.1.Nodup ∧
    (∀ k ∈ (alloc t).2.1, k < (alloc t).2.2) ∧
    (∀ e ∈ t.items, e.tok < (alloc t).2.2 ∧ e.tok ∉ (alloc t).2.1) := by
  unfold alloc
  cases hf : t.free with
  | nil =>
    simp only
    refine ⟨?_, by omega, by simp, by simp, by simp, ?_⟩
    · intro e he h; have := (hi.used e he).1; omega
    · intro e he; exact ⟨by have := (hi.used e he).1; omega, by simp⟩
  | cons k fs =>
    simp only
    have hn := hi.freeNodup; rw [hf] at hn
    have hn' := List.nodup_cons.1 hn
    refine ⟨?_, ?_, hn'.1, hn'.2, ?_, ?_⟩
    · intro e he h
      have := (hi.used e he).2; rw [hf] at this
      exact this (h ▸ List.mem_cons_self)
    · exact hi.freeLt k (hf ▸ List.mem_cons_self)
    · intro k' hk'; exact hi.freeLt k' (hf ▸ List.mem_cons_of_mem _ hk')
    · intro e he
      have := hi.used e he; rw [hf] at this
      exact ⟨this.1, fun h => this.2 (List.mem_cons_of_mem _ h)⟩

theorem setAt_spec {t : T} (hi : Inv t) (ms st : Nat) :
    let r := setAt t ms st
    Inv r.2 ∧ r.2.tick = t.tick ∧ t.tick < r.1.2 ∧
      r.2.items = ⟨r.1.1, r.1.2, st⟩ :: t.items ∧ (∀ e ∈ t.items, e.tok ≠ r.1.1) := by
  obtain ⟨hfresh, hlt, hnf, hnd, hfl, hused⟩ := alloc_fresh hi
  have htick : t.tick < (if durationToTick ms t.tickMs ≤ t.tick then t.tick + 1 else durationToTick ms t.tickMs) := by
    split <;> omega
  simp only [setAt]
  refine ⟨?_, trivial, htick, trivial, hfresh⟩
  constructor
  · intro e he
    rcases List.mem_cons.1 he with h | h
    · subst h; simp only; omega
    · exact hi.ge e h
  · intro e he het
    rcases List.mem_cons.1 he with h | h
    · subst h; simp only at het; omega
    · exact hi.due e h het
  · simp only [List.map_cons, List.nodup_cons]
    refine ⟨?_, hi.nodup⟩
    intro hc
    obtain ⟨e, he, heq⟩ := List.mem_map.1 hc
    exact hfresh e he heq
  · intro e he
    rcases List.mem_cons.1 he with h | h
    · subst h; exact ⟨hlt, hnf⟩
    · exact hused e h
  · exact hnd
  · exact hfl

theorem cancel_spec {t : T} (hi : Inv t) (k tick : Nat) :
    let r := cancel t k tick
    Inv r.2 ∧ r.2.tick = t.tick ∧
      ((r.1 = none ∧ r.2 = t ∧ ¬ ∃ e ∈ t.items, e.tok = k ∧ e.tick = tick) ∨
       (∃ e ∈ t.items, e.tok = k ∧ e.tick = tick ∧ r.1 = some e.st ∧
          r.2.items = removeTok t.items k)) := by
  simp only [cancel]
  split
  · next hf =>
    refine ⟨hi, rfl, Or.inl ⟨rfl, rfl, ?_⟩⟩
    rintro ⟨e, he, hk, _⟩
    have := findTok_mem_nodup he hi.nodup
    rw [hk, hf] at this; cases this
  · next e hf =>
    obtain ⟨hm, hk⟩ := findTok_some hf
    split
    · next hne =>
      refine ⟨hi, rfl, Or.inl ⟨rfl, rfl, ?_⟩⟩
      rintro ⟨e', he', hk', ht'⟩
      have := findTok_mem_nodup he' hi.nodup
      rw [hk', hf] at this; cases this; exact hne ht'
    · next heq =>
      have heq' : e.tick = tick := by
        rcases Nat.lt_trichotomy e.tick tick with h | h | h
        · exact absurd (by omega) heq
        · exact h
        · exact absurd (by omega) heq
      refine ⟨?_, rfl, Or.inr ⟨e, hm, hk, heq', rfl, rfl⟩⟩
      constructor
      · intro x hx; exact hi.ge x (mem_removeTok.1 hx).1
      · intro x hx hxt
        obtain ⟨hxm, hxne⟩ := mem_removeTok.1 hx
        exact List.mem_filter.2 ⟨hi.due x hxm hxt, by simpa using hxne⟩
      · exact nodup_removeTok _ hi.nodup
      · intro x hx
        obtain ⟨hxm, hxne⟩ := mem_removeTok.1 hx
        refine ⟨(hi.used x hxm).1, ?_⟩
        intro hc
        rcases List.mem_cons.1 hc with h1 | h1
        · exact hxne h1
        · exact (hi.used x hxm).2 h1
      · refine List.nodup_cons.2 ⟨?_, hi.freeNodup⟩
        have := (hi.used e hm).2; rwa [hk] at this
      · intro k' hk'
        rcases List.mem_cons.1 hk' with h1 | h1
        · subst h1; have := (hi.used e hm).1; rwa [hk] at this
        · exact hi.freeLt k' h1

theorem pollTo_some {t t' : T} {st target : Nat} (hi : Inv t) (h : pollTo t target = (some st, t')) :
    ∃ e ∈ t.items, e.st = st ∧ e.tick ≤ max target t.tick ∧
      t'.items = removeTok t.items e.tok ∧ t.tick ≤ t'.tick ∧ t'.tick ≤ max target t.tick ∧ Inv t' := by
  unfold pollTo at h
  obtain ⟨e, hm, hst, hle, hlt, hit, hge, hi'⟩ := advance_some _ hi h
  have : t.tick ≤ max target t.tick := Nat.le_max_right _ _
  exact ⟨e, hm, hst, by omega, hit, hge, by omega, hi'⟩

theorem pollTo_none {t t' : T} {target : Nat} (hi : Inv t) (h : pollTo t target = (none, t')) :
    t'.items = t.items ∧ t'.tick = max target t.tick + 1 ∧ Inv t' := by
  unfold pollTo at h
  obtain ⟨h1, h2, h3⟩ := advance_none _ hi h
  have : t.tick ≤ max target t.tick := Nat.le_max_right _ _
  exact ⟨h1, by omega, h3⟩

theorem pollTo_inv {t : T} (hi : Inv t) (target : Nat) :
    Inv (pollTo t target).2 ∧ t.tick ≤ (pollTo t target).2.tick ∧
      (pollTo t target).2.tick ≤ max target t.tick + 1 := by
  cases h : pollTo t target with
  | mk r t' =>
    cases r with
    | none =>
      obtain ⟨_, h2, h3⟩ := pollTo_none hi h
      have : t.tick ≤ max target t.tick := Nat.le_max_right _ _
      exact ⟨h3, by simp only; omega, by simp only; omega⟩
    | some st =>
      obtain ⟨e, _, _, _, _, h5, h6, h7⟩ := pollTo_some hi h
      exact ⟨h7, h5, by simp only; omega⟩

theorem step_inv {t : T} (hi : Inv t) (op : Op) : Inv (step t op).1 := by
  cases op with
  | set ms st => exact (setAt_spec hi ms st).1
  | cancel k tick => exact (cancel_spec hi k tick).1
  | reset k tick ms =>
    simp only [step, resetAt]
    have hc := cancel_spec hi k tick
    cases hcr : cancel t k tick with
    | mk r t1 =>
      rw [hcr] at hc
      cases r with
      | none => exact hc.1
      | some st => exact (setAt_spec hc.1 ms st).1
  | poll target => exact (pollTo_inv hi target).1
  | pollMs ms => exact (pollTo_inv hi _).1

theorem run_inv {t : T} (hi : Inv t) (ops : List Op) : Inv (run t ops) := by
  induction ops generalizing t with
  | nil => exact hi
  | cons o os ih => exact ih (step_inv hi o)

end Sozu.Timer

/-! ### `next_tick` bookkeeping -/
namespace Sozu.Timer

/-- `nt ≤ x` with `none = TICK_MAX` -/
def ntLe (nt : Option Nat) (x : Nat) : Prop :=
  match nt with
  | none => False
  | some a => a ≤ x

theorem ntLe_minNt_self (nt : Option Nat) (x : Nat) : ntLe (minNt nt x) x := by
  cases nt <;> simp [minNt, ntLe, Nat.min_le_right]

theorem ntLe_minNt_of {nt : Option Nat} {y : Nat} (x : Nat) (h : ntLe nt y) : ntLe (minNt nt x) y := by
  cases nt with
  | none => cases h
  | some a => simp only [minNt, ntLe] at h ⊢; exact Nat.le_trans (Nat.min_le_left _ _) h

theorem getD_set (l : List (Option Nat)) (i j : Nat) (v : Option Nat) :
    (l.set i v).getD j none = if i = j ∧ i < l.length then v else l.getD j none := by
  simp only [List.getD_eq_getElem?_getD, List.getElem?_set]
  by_cases h : i = j
  · subst h
    by_cases h2 : i < l.length
    · simp [h2]
    · simp [h2, List.getElem?_eq_none (Nat.le_of_not_lt h2)]
  · simp [h]

/-- The cursor's remainder is a suffix of the current slot's list, and every
    entry outside it is covered by its slot's `next_tick`. -/
structure Cov (t : T) : Prop where
  len : t.nts.length = t.slots
  pos : 0 < t.slots
  suffix : t.todo <:+ (view t (t.tick % t.slots)).map (·.tok)
  cov : ∀ e ∈ t.items, ntLe (getNt t (e.tick % t.slots)) e.tick ∨
          (e.tick % t.slots = t.tick % t.slots ∧ e.tok ∈ t.todo)

/-- every pending entry is covered by its slot's `next_tick` -/
def Full (t : T) : Prop := ∀ e ∈ t.items, ntLe (getNt t (e.tick % t.slots)) e.tick

theorem scan_nt {tick : Nat} {items : List Entry} :
    ∀ (todo : List Nat) (nt : Option Nat),
      (∀ {e rest nt'}, scan tick items todo nt = .fire e rest nt' →
        (∀ y, ntLe nt y → ntLe nt' y) ∧
        ∃ pre, todo = pre ++ e.tok :: rest ∧ ∀ k ∈ pre, ∀ x, findTok items k = some x → ntLe nt' x.tick) ∧
      (∀ {nt'}, scan tick items todo nt = .done nt' →
        (∀ y, ntLe nt y → ntLe nt' y) ∧
        ∀ k ∈ todo, ∀ x, findTok items k = some x → ntLe nt' x.tick) := by
  intro todo
  induction todo with
  | nil =>
    intro nt
    refine ⟨fun h => by simp [scan] at h, fun h => ?_⟩
    simp only [scan] at h; cases h
    exact ⟨fun _ h => h, fun k hk => by cases hk⟩
  | cons k ks ih =>
    intro nt
    unfold scan
    split
    · next hf =>
      obtain ⟨i1, i2⟩ := ih nt
      constructor
      · intro e rest nt' h
        obtain ⟨m, pre, hp, hc⟩ := i1 h
        refine ⟨m, k :: pre, by simp [hp], ?_⟩
        intro k' hk' x hx
        rcases List.mem_cons.1 hk' with h' | h'
        · subst h'; rw [hf] at hx; cases hx
        · exact hc k' h' x hx
      · intro nt' h
        obtain ⟨m, hc⟩ := i2 h
        refine ⟨m, ?_⟩
        intro k' hk' x hx
        rcases List.mem_cons.1 hk' with h' | h'
        · subst h'; rw [hf] at hx; cases hx
        · exact hc k' h' x hx
    · next e0 hf =>
      split
      · next hle =>
        constructor
        · intro e rest nt' h
          cases h
          exact ⟨fun _ h => h, [], by simp [(findTok_some hf).2], by intro k' hk'; cases hk'⟩
        · intro nt' h; cases h
      · next hgt =>
        obtain ⟨i1, i2⟩ := ih (minNt nt e0.tick)
        constructor
        · intro e rest nt' h
          obtain ⟨m, pre, hp, hc⟩ := i1 h
          refine ⟨fun y hy => m y (ntLe_minNt_of _ hy), k :: pre, by simp [hp], ?_⟩
          intro k' hk' x hx
          rcases List.mem_cons.1 hk' with h' | h'
          · subst h'; rw [hf] at hx; cases hx
            exact m _ (ntLe_minNt_self _ _)
          · exact hc k' h' x hx
        · intro nt' h
          obtain ⟨m, hc⟩ := i2 h
          refine ⟨fun y hy => m y (ntLe_minNt_of _ hy), ?_⟩
          intro k' hk' x hx
          rcases List.mem_cons.1 hk' with h' | h'
          · subst h'; rw [hf] at hx; cases hx
            exact m _ (ntLe_minNt_self _ _)
          · exact hc k' h' x hx

theorem view_nodup {t : T} (hi : Inv t) (s : Nat) : ((view t s).map (·.tok)).Nodup :=
  List.Nodup.sublist (List.Sublist.map _ List.filter_sublist) hi.nodup

theorem mem_view {t : T} {s : Nat} {e : Entry} : e ∈ view t s ↔ e ∈ t.items ∧ e.tick % t.slots = s := by
  simp [view, List.mem_filter]

/-- the cursor is at the head of the slot's list: nothing has been passed yet -/
theorem head_whole {t : T} {k : Nat} {ks : List Nat} (hi : Inv t) (hc : Cov t)
    (htodo : t.todo = k :: ks) (hh : isHead t (t.tick % t.slots) k = true) :
    t.todo = (view t (t.tick % t.slots)).map (·.tok) := by
  have hs := hc.suffix
  have hn := view_nodup hi (t.tick % t.slots)
  unfold isHead at hh
  cases hv : view t (t.tick % t.slots) with
  | nil => rw [hv] at hh; cases hh
  | cons e es =>
    rw [hv] at hh hs hn
    simp only [beq_iff_eq] at hh
    obtain ⟨p, hp⟩ := hs
    cases p with
    | nil => simpa using hp
    | cons a as =>
      exfalso
      rw [htodo] at hp
      simp only [List.map_cons, List.cons_append, List.cons.injEq] at hp
      have : k ∈ es.map (·.tok) := by rw [← hp.2]; simp
      simp only [List.map_cons, List.nodup_cons] at hn
      exact hn.1 (hh ▸ this)

theorem scanCurrent_cov {t : T} (hi : Inv t) (hc : Cov t) :
    Cov (scanCurrent t).2 ∧ ((scanCurrent t).1 = none → Full (scanCurrent t).2) := by
  unfold scanCurrent
  split
  · next htodo =>
    refine ⟨hc, fun _ e he => ?_⟩
    rcases hc.cov e he with h | h
    · exact h
    · rw [htodo] at h; cases h.2
  · next k ks htodo =>
    simp only
    have hsfx := hc.suffix
    have hvn := view_nodup hi (t.tick % t.slots)
    have htn : t.todo.Nodup := List.Nodup.sublist hsfx.sublist hvn
    -- entries of the current slot that the cursor has already passed keep their cover
    have hpassed : ∀ x ∈ t.items, x.tick % t.slots = t.tick % t.slots → x.tok ∉ t.todo →
        ∀ nt', (∀ y, ntLe (if isHead t (slotOf t t.tick) k then none else getNt t (slotOf t t.tick)) y → ntLe nt' y) →
          ntLe nt' x.tick := by
      intro x hx hslot hnot nt' hm
      by_cases hh : isHead t (slotOf t t.tick) k = true
      · exfalso
        have := head_whole hi hc htodo hh
        exact hnot (this ▸ List.mem_map.2 ⟨x, mem_view.2 ⟨hx, hslot⟩, rfl⟩)
      · apply hm
        simp only [hh]
        rcases hc.cov x hx with h | h
        · simpa [slotOf, hslot] using h
        · exact absurd h.2 hnot
    have hslt : slotOf t t.tick < t.nts.length := by
      rw [hc.len]; exact Nat.mod_lt _ hc.pos
    split
    · next e rest nt hs =>
      obtain ⟨hmono, pre, hpre, hcpre⟩ := (scan_nt _ _).1 hs
      obtain ⟨hm, _, _⟩ := scan_fire _ _ hs
      have hrest : e.tok ∉ rest ∧ ∀ k' ∈ pre, k' ≠ e.tok := by
        rw [hpre] at htn
        have h1 := (List.nodup_append.1 htn)
        refine ⟨(List.nodup_cons.1 h1.2.1).1, ?_⟩
        intro k' hk' heq
        exact h1.2.2 k' hk' e.tok List.mem_cons_self heq
      refine ⟨?_, fun h => by cases h⟩
      constructor
      · simp [hc.len]
      · exact hc.pos
      · show rest <:+ (List.filter _ (removeTok t.items e.tok)).map (·.tok)
        have h1 : rest <:+ t.todo := by
          rw [hpre]
          exact (List.suffix_cons _ _).trans (List.suffix_append _ _)
        have h2 := (h1.trans hsfx).filter (fun x => x != e.tok)
        have h3 : rest.filter (fun x => x != e.tok) = rest := by
          apply List.filter_eq_self.2
          intro a ha; simp only [bne_iff_ne]; intro h; exact hrest.1 (h ▸ ha)
        rw [h3] at h2
        have h4 : ((view t (t.tick % t.slots)).map (·.tok)).filter (fun x => x != e.tok) =
            (List.filter (fun x => x.tick % t.slots == t.tick % t.slots) (removeTok t.items e.tok)).map (·.tok) := by
          rw [List.filter_map]
          congr 1
          simp only [view, removeTok, List.filter_filter]
          apply List.filter_congr
          intro a _; simp [Bool.and_comm]
        rw [h4] at h2; exact h2
      · intro x hx
        obtain ⟨hxm, hxne⟩ := mem_removeTok.1 hx
        show ntLe ((t.nts.set (slotOf t t.tick) nt).getD (x.tick % t.slots) none) x.tick ∨ _
        rw [getD_set]
        by_cases hslot : x.tick % t.slots = t.tick % t.slots
        · have : (slotOf t t.tick = x.tick % t.slots ∧ slotOf t t.tick < t.nts.length) := ⟨by simp [slotOf, hslot], hslt⟩
          rw [if_pos this]
          by_cases hin : x.tok ∈ t.todo
          · rw [hpre] at hin
            rcases List.mem_append.1 hin with h1 | h1
            · left; exact hcpre _ h1 x (findTok_mem_nodup hxm hi.nodup)
            · rcases List.mem_cons.1 h1 with h2 | h2
              · exact absurd h2 hxne
              · right; exact ⟨hslot, h2⟩
          · left; exact hpassed x hxm hslot hin nt hmono
        · have : ¬ (slotOf t t.tick = x.tick % t.slots ∧ slotOf t t.tick < t.nts.length) := by
            intro h; exact hslot (by simpa [slotOf] using h.1.symm)
          rw [if_neg this]
          rcases hc.cov x hxm with h | h
          · left; exact h
          · exact absurd h.1 hslot
    · next nt hs =>
      obtain ⟨hmono, hcall⟩ := (scan_nt _ _).2 hs
      have hfull : ∀ x ∈ t.items,
          ntLe ((t.nts.set (slotOf t t.tick) nt).getD (x.tick % t.slots) none) x.tick := by
        intro x hxm
        rw [getD_set]
        by_cases hslot : x.tick % t.slots = t.tick % t.slots
        · have : (slotOf t t.tick = x.tick % t.slots ∧ slotOf t t.tick < t.nts.length) := ⟨by simp [slotOf, hslot], hslt⟩
          rw [if_pos this]
          by_cases hin : x.tok ∈ t.todo
          · exact hcall _ hin x (findTok_mem_nodup hxm hi.nodup)
          · exact hpassed x hxm hslot hin nt hmono
        · have : ¬ (slotOf t t.tick = x.tick % t.slots ∧ slotOf t t.tick < t.nts.length) := by
            intro h; exact hslot (by simpa [slotOf] using h.1.symm)
          rw [if_neg this]
          rcases hc.cov x hxm with h | h
          · exact h
          · exact absurd h.1 hslot
      refine ⟨?_, fun _ => hfull⟩
      constructor
      · simp [hc.len]
      · exact hc.pos
      · exact List.nil_suffix
      · intro x hx; left; exact hfull x hx

end Sozu.Timer

namespace Sozu.Timer

theorem bump_cov {t : T} (hc : Cov t) (hf : Full t) : Cov (bump t) ∧ Full (bump t) := by
  have hfull : ∀ e ∈ t.items, ntLe (getNt (bump t) (e.tick % t.slots)) e.tick := by
    intro e he
    show ntLe ((if (List.filter (fun x : Entry => x.tick % t.slots == (t.tick + 1) % t.slots) t.items).isEmpty
        then t.nts.set ((t.tick + 1) % t.slots) none else t.nts).getD (e.tick % t.slots) none) e.tick
    split
    · next hem =>
      rw [getD_set]
      have hne : ¬ ((t.tick + 1) % t.slots = e.tick % t.slots ∧ (t.tick + 1) % t.slots < t.nts.length) := by
        intro h
        have : e ∈ List.filter (fun x : Entry => x.tick % t.slots == (t.tick + 1) % t.slots) t.items :=
          List.mem_filter.2 ⟨he, by simp [h.1]⟩
        rw [List.isEmpty_iff.1 hem] at this; cases this
      rw [if_neg hne]; exact hf e he
    · exact hf e he
  refine ⟨?_, hfull⟩
  constructor
  · show (if _ then _ else _ : List (Option Nat)).length = t.slots
    split <;> simp [hc.len]
  · exact hc.pos
  · exact List.suffix_refl _
  · intro e he; left; exact hfull e he

theorem scanCurrent_slots (t : T) : (scanCurrent t).2.slots = t.slots := by
  unfold scanCurrent; split
  · rfl
  · simp only; split <;> rfl

theorem advance_cov : ∀ (n : Nat) {t : T}, Inv t → Cov t →
    Cov (advance n t).2 ∧ ((advance n t).1 = none → 0 < n → Full (advance n t).2) := by
  intro n
  induction n with
  | zero => intro t _ hc; exact ⟨hc, fun _ h => by omega⟩
  | succ n ih =>
    intro t hi hc
    unfold advance
    have hsc := scanCurrent_cov hi hc
    cases hs : scanCurrent t with
    | mk r t0 =>
      rw [hs] at hsc
      cases r with
      | some st => exact ⟨hsc.1, fun h => by cases h⟩
      | none =>
        simp only
        obtain ⟨hit, htk, htd, hf, hcap, _, hlt⟩ := scanCurrent_none hi hs
        have hi0 : Inv t0 := by
          constructor
          · intro e he; rw [hit] at he; rw [htk]; exact hi.ge e he
          · intro e he het; rw [hit] at he; rw [htk] at het
            have := hlt e he; omega
          · rw [hit]; exact hi.nodup
          · intro e he; rw [hit] at he; rw [hf, hcap]; exact hi.used e he
          · rw [hf]; exact hi.freeNodup
          · rw [hf, hcap]; exact hi.freeLt
        have hb := bump_inv hi0 htd (by intro e he; rw [hit] at he; rw [htk]; exact hlt e he)
        have hbc := bump_cov hsc.1 (hsc.2 rfl)
        have := ih hb hbc.1
        refine ⟨this.1, fun hnone _ => ?_⟩
        cases n with
        | zero => simp only [advance]; exact hbc.2
        | succ m => exact this.2 hnone (by omega)

theorem pollTo_cov {t : T} (hi : Inv t) (hc : Cov t) (target : Nat) :
    Cov (pollTo t target).2 ∧ ((pollTo t target).1 = none → Full (pollTo t target).2) := by
  unfold pollTo
  have := advance_cov (max target t.tick + 1 - t.tick) hi hc
  refine ⟨this.1, fun h => this.2 h ?_⟩
  have : t.tick ≤ max target t.tick := Nat.le_max_right _ _
  omega

theorem setAt_cov {t : T} (hi : Inv t) (hc : Cov t) (ms st : Nat) :
    Cov (setAt t ms st).2 ∧ (Full t → Full (setAt t ms st).2) := by
  simp only [setAt]
  generalize hk : (alloc t).1 = k
  generalize htk : (if durationToTick ms t.tickMs ≤ t.tick then t.tick + 1 else durationToTick ms t.tickMs) = tick
  have hslt : slotOf t tick < t.nts.length := by rw [hc.len]; exact Nat.mod_lt _ hc.pos
  have hnew : ∀ x : Entry, ∀ y, ntLe (getNt t (x.tick % t.slots)) y →
      ntLe ((t.nts.set (slotOf t tick) (minNt (getNt t (slotOf t tick)) tick)).getD (x.tick % t.slots) none) y := by
    intro x y h
    rw [getD_set]
    split
    · next hh => rw [← hh.1] at h; exact ntLe_minNt_of _ h
    · exact h
  have hself : ntLe ((t.nts.set (slotOf t tick) (minNt (getNt t (slotOf t tick)) tick)).getD (tick % t.slots) none) tick := by
    rw [getD_set, if_pos ⟨rfl, hslt⟩]; exact ntLe_minNt_self _ _
  constructor
  · constructor
    · simp [hc.len]
    · exact hc.pos
    · show t.todo <:+ (List.filter _ (_ :: t.items)).map (·.tok)
      rw [List.filter_cons]
      split
      · exact hc.suffix.trans (by simp only [List.map_cons]; exact List.suffix_cons _ _)
      · exact hc.suffix
    · intro x hx
      rcases List.mem_cons.1 hx with h | h
      · subst h; left; exact hself
      · rcases hc.cov x h with h1 | h1
        · left; exact hnew x _ h1
        · right; exact h1
  · intro hf x hx
    rcases List.mem_cons.1 hx with h | h
    · subst h; exact hself
    · exact hnew x _ (hf x h)

theorem cancel_cov {t : T} (hi : Inv t) (hc : Cov t) (k tick : Nat) :
    Cov (cancel t k tick).2 ∧ (Full t → Full (cancel t k tick).2) := by
  simp only [cancel]
  split
  · exact ⟨hc, id⟩
  · next e hf =>
    split
    · exact ⟨hc, id⟩
    · constructor
      · constructor
        · exact hc.len
        · exact hc.pos
        · show t.todo.filter (fun x => x != k) <:+
            (List.filter (fun x : Entry => x.tick % t.slots == t.tick % t.slots) (removeTok t.items k)).map (·.tok)
          have h2 := hc.suffix.filter (fun x => x != k)
          have h4 : ((view t (t.tick % t.slots)).map (·.tok)).filter (fun x => x != k) =
              (List.filter (fun x : Entry => x.tick % t.slots == t.tick % t.slots) (removeTok t.items k)).map (·.tok) := by
            rw [List.filter_map]
            congr 1
            simp only [view, removeTok, List.filter_filter]
            apply List.filter_congr
            intro a _; simp [Bool.and_comm]
          rw [h4] at h2; exact h2
        · intro x hx
          obtain ⟨hxm, hxne⟩ := mem_removeTok.1 hx
          rcases hc.cov x hxm with h | h
          · left; exact h
          · right; exact ⟨h.1, List.mem_filter.2 ⟨h.2, by simpa using hxne⟩⟩
      · intro hfull x hx
        exact hfull x (mem_removeTok.1 hx).1

theorem nextPow2Aux_pos : ∀ fuel p n, 0 < p → 0 < nextPow2Aux fuel p n := by
  intro fuel
  induction fuel with
  | zero => intro p n h; exact h
  | succ f ih => intro p n h; unfold nextPow2Aux; split; exact h; exact ih _ _ (by omega)

theorem cov_new (a b : Nat) : Cov (T.new a b) ∧ Full (T.new a b) := by
  refine ⟨?_, by intro e he; simp [T.new] at he⟩
  constructor
  · simp [T.new]
  · exact nextPow2Aux_pos _ _ _ (by omega)
  · simp [T.new, view]
  · intro e he; simp [T.new] at he

/-- min over the wheel (with `none = TICK_MAX`) is below every slot's value -/
theorem minOpt_le (acc x : Option Nat) :
    (∀ y, ntLe acc y → ntLe (minOpt acc x) y) ∧ (∀ y, ntLe x y → ntLe (minOpt acc x) y) := by
  cases acc with
  | none => cases x <;> simp [ntLe, minOpt]
  | some a =>
    cases x with
    | none => simp [ntLe, minOpt]
    | some b =>
      simp only [ntLe, minOpt]
      exact ⟨fun y h => Nat.le_trans (Nat.min_le_left _ _) h, fun y h => Nat.le_trans (Nat.min_le_right _ _) h⟩

theorem foldMin_le (l : List (Option Nat)) :
    ∀ (acc : Option Nat),
      (∀ y, ntLe acc y → ntLe (l.foldl minOpt acc) y) ∧
        ∀ i, i < l.length → ∀ y, ntLe (l.getD i none) y → ntLe (l.foldl minOpt acc) y := by
  induction l with
  | nil => intro acc; exact ⟨fun _ h => h, fun i hi => by simp at hi⟩
  | cons x xs ih =>
    intro acc
    simp only [List.foldl_cons]
    obtain ⟨i1, i2⟩ := ih (minOpt acc x)
    refine ⟨fun y h => i1 y ((minOpt_le acc x).1 y h), ?_⟩
    intro i hi y hy
    cases i with
    | zero => simp only [List.getD_cons_zero] at hy; exact i1 y ((minOpt_le acc x).2 y hy)
    | succ j =>
      simp only [List.getD_cons_succ] at hy
      exact i2 j (by simpa using hi) y hy

theorem nextTick_le {t : T} (hi : Inv t) (hc : Cov t) (hf : Full t) :
    ∀ e ∈ t.items, ntLe (nextTick t) e.tick := by
  intro e he
  unfold nextTick
  split
  · exact hi.ge e he
  · exact (foldMin_le t.nts none).2 (e.tick % t.slots) (by rw [hc.len]; exact Nat.mod_lt _ hc.pos) e.tick (hf e he)

end Sozu.Timer
