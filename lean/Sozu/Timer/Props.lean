import Sozu.Timer.Lemmas
/-
C16, timer wheel (`lib/src/timer.rs`): "idle or stuck sessions are reclaimed
within their timeouts" rests on the wheel returning every armed timeout.

All theorems are about every operation history `ops` (set / cancel / reset /
poll_to with arbitrary targets, in any order) on a wheel of any tick length and
any number of slots, starting from `Timer::new`.
-/
namespace Sozu.Timer

/-- the state after any history -/
def reach (tickMs slots : Nat) (ops : List Op) : T := run (T.new tickMs slots) ops

theorem reach_inv (a b : Nat) (ops : List Op) : Inv (reach a b ops) := run_inv (inv_new a b) ops

/-- Polling until `None`, as the event loop does (`while let Some(t) = timer.poll()`). -/
def drain : Nat → T → Nat → List Nat × T
  | 0, t, _ => ([], t)
  | n + 1, t, target =>
    match pollTo t target with
    | (none, t') => ([], t')
    | (some st, t') => let r := drain n t' target; (st :: r.1, r.2)

/-- **Fires exactly once, never before its tick, at the first drained poll that
reaches it.** After any history: a poll that returns a state returns the state of
a pending timeout whose tick is at most `max target self.tick`, and removes
exactly that timeout (tokens of pending timeouts are pairwise different, so it
cannot come back); a poll that returns `None` leaves every pending timeout in
place, and then none of them is due: every timeout with `tick ≤ target` has been
returned by this or an earlier poll. -/
theorem C16_timer_fires_exactly_once (a b : Nat) (ops : List Op) (target : Nat) :
    let t := reach a b ops
    ((t.items.map (·.tok)).Nodup) ∧
    (∀ st t', pollTo t target = (some st, t') →
        ∃ e ∈ t.items, e.st = st ∧ e.tick ≤ max target t.tick ∧
          t'.items = t.items.filter (fun x => x.tok != e.tok) ∧ e ∉ t'.items) ∧
    (∀ t', pollTo t target = (none, t') →
        t'.items = t.items ∧ (∀ e ∈ t.items, max target t.tick < e.tick) ∧
          t'.tick = max target t.tick + 1) := by
  intro t
  have hi : Inv t := reach_inv a b ops
  refine ⟨hi.nodup, ?_, ?_⟩
  · intro st t' h
    obtain ⟨e, hm, hst, hle, hit, _, _, _⟩ := pollTo_some hi h
    refine ⟨e, hm, hst, hle, hit, ?_⟩
    rw [hit]; intro hc; exact (mem_removeTok.1 hc).2 rfl
  · intro t' h
    obtain ⟨h1, h2, h3⟩ := pollTo_none hi h
    refine ⟨h1, ?_, h2⟩
    intro e he
    have := h3.ge e (h1 ▸ he)
    omega

theorem perm_removeTok {items : List Entry} {e : Entry} (hm : e ∈ items)
    (hn : (items.map (·.tok)).Nodup) : items.Perm (e :: removeTok items e.tok) := by
  induction items with
  | nil => cases hm
  | cons x xs ih =>
    simp only [List.map_cons, List.nodup_cons] at hn
    by_cases hx : x = e
    · subst hx
      have : removeTok (x :: xs) x.tok = xs := by
        unfold removeTok
        rw [List.filter_cons]
        simp only [bne_self_eq_false, Bool.false_eq_true, ↓reduceIte]
        apply List.filter_eq_self.2
        intro y hy
        have : y.tok ≠ x.tok := fun h => hn.1 (List.mem_map.2 ⟨y, hy, h⟩)
        simpa using this
      rw [this]
    · have hm' : e ∈ xs := by
        rcases List.mem_cons.1 hm with h | h
        · exact absurd h.symm hx
        · exact h
      have hne : x.tok ≠ e.tok := fun h => hn.1 (h ▸ List.mem_map.2 ⟨e, hm', rfl⟩)
      have : removeTok (x :: xs) e.tok = x :: removeTok xs e.tok := by
        unfold removeTok
        rw [List.filter_cons]
        have : (x.tok != e.tok) = true := by simpa using hne
        simp [this]
      rw [this]
      exact (List.Perm.cons x (ih hm' hn.2)).trans (List.Perm.swap e x _)

theorem drain_spec : ∀ (n : Nat) (t : T) (target : Nat), Inv t → t.items.length < n →
    let m := max target t.tick
    let r := drain n t target
    r.1.Perm ((t.items.filter (fun e => decide (e.tick ≤ m))).map (·.st)) ∧
      r.2.items = t.items.filter (fun e => !decide (e.tick ≤ m)) ∧ r.2.tick = m + 1 ∧ Inv r.2 := by
  intro n
  induction n with
  | zero => intro t target _ h; omega
  | succ n ih =>
    intro t target hi hlen
    simp only [drain]
    cases hp : pollTo t target with
    | mk r t' =>
      cases r with
      | none =>
        obtain ⟨h1, h2, h3⟩ := pollTo_none hi hp
        have hall : ∀ e ∈ t.items, max target t.tick < e.tick := by
          intro e he; have := h3.ge e (h1 ▸ he); omega
        have hf1 : t.items.filter (fun e => decide (e.tick ≤ max target t.tick)) = [] := by
          apply List.filter_eq_nil_iff.2
          intro e he; have := hall e he; simp; omega
        have hf2 : t.items.filter (fun e => !decide (e.tick ≤ max target t.tick)) = t.items := by
          apply List.filter_eq_self.2
          intro e he; have := hall e he; simp; omega
        simp only [hf1, hf2, List.map_nil]
        exact ⟨List.Perm.refl _, h1, h2, h3⟩
      | some st =>
        obtain ⟨e, hm, hst, hle, hit, hge, hle', hi'⟩ := pollTo_some hi hp
        have hmax : max target t'.tick = max target t.tick := by
          have : t.tick ≤ max target t.tick := Nat.le_max_right _ _
          have : target ≤ max target t.tick := Nat.le_max_left _ _
          rcases Nat.le_total target t'.tick with h | h
          · rw [Nat.max_eq_right h]; omega
          · rw [Nat.max_eq_left h]; omega
        have hlen' : t'.items.length < n := by
          have hp := (perm_removeTok hm hi.nodup).length_eq
          rw [hit]; simp only [List.length_cons] at hp; omega
        obtain ⟨p1, p2, p3, p4⟩ := ih t' target hi' hlen'
        simp only at p1 p2 p3 p4 ⊢
        rw [hmax] at p1 p2 p3
        have hperm := perm_removeTok hm hi.nodup
        have hd : decide (e.tick ≤ max target t.tick) = true := by simpa using hle
        refine ⟨?_, ?_, p3, p4⟩
        · have hq := (hperm.filter (fun e => decide (e.tick ≤ max target t.tick))).map (·.st)
          rw [List.filter_cons] at hq
          simp only [hd, ↓reduceIte, List.map_cons] at hq
          rw [hst] at hq
          rw [hit] at p1
          exact (List.Perm.cons st p1).trans hq.symm
        · rw [p2, hit]
          unfold removeTok
          rw [List.filter_filter]
          apply List.filter_congr
          intro x hx
          by_cases hxe : x.tok = e.tok
          · have : x = e := by
              have h1 := findTok_mem_nodup hx hi.nodup
              have h2 := findTok_mem_nodup hm hi.nodup
              rw [hxe, h2] at h1; cases h1; rfl
            subst this
            simp [hd]
          · have : (x.tok != e.tok) = true := by simpa using hxe
            simp [this]

/-- **The event loop's drain returns exactly the due timeouts, each once.**
After any history, polling to `target` until `None` (at most `pending + 1`
polls) returns a permutation of the states of the pending timeouts with
`tick ≤ max target self.tick`, keeps exactly the others, and leaves the wheel at
`max target self.tick + 1`. -/
theorem C16_timer_drain_exact (a b : Nat) (ops : List Op) (target : Nat) :
    let t := reach a b ops
    let m := max target t.tick
    let r := drain (t.items.length + 1) t target
    r.1.Perm ((t.items.filter (fun e => decide (e.tick ≤ m))).map (·.st)) ∧
      r.2.items = t.items.filter (fun e => !decide (e.tick ≤ m)) ∧ r.2.tick = m + 1 := by
  intro t m r
  obtain ⟨h1, h2, h3, _⟩ := drain_spec (t.items.length + 1) t target (reach_inv a b ops) (by omega)
  exact ⟨h1, h2, h3⟩

/-- largest poll target of a history (`pollMs` targets go through `duration_to_tick`) -/
def maxTarget (tickMs : Nat) : List Op → Nat
  | [] => 0
  | .poll k :: os => max k (maxTarget tickMs os)
  | .pollMs ms :: os => max (durationToTick ms tickMs) (maxTarget tickMs os)
  | _ :: os => maxTarget tickMs os

theorem step_tickMs (t : T) (op : Op) : (step t op).1.tickMs = t.tickMs := by
  have hsc : ∀ t : T, (scanCurrent t).2.tickMs = t.tickMs := by
    intro t; unfold scanCurrent; split
    · rfl
    · simp only; split <;> rfl
  have hadv : ∀ n (t : T), (advance n t).2.tickMs = t.tickMs := by
    intro n; induction n with
    | zero => intro t; rfl
    | succ n ih =>
      intro t; unfold advance
      cases h : scanCurrent t with
      | mk r t1 =>
        have := hsc t; rw [h] at this
        cases r with
        | some st => exact this
        | none => simp only; rw [ih]; exact this
  have hcan : ∀ (t : T) k tk, (cancel t k tk).2.tickMs = t.tickMs := by
    intro t k tk; unfold cancel; split
    · rfl
    · split <;> rfl
  cases op with
  | set ms st => rfl
  | cancel k tick => exact hcan t k tick
  | reset k tick ms =>
    simp only [step, resetAt]
    cases h : cancel t k tick with
    | mk r t1 =>
      have := hcan t k tick; rw [h] at this
      cases r with
      | none => exact this
      | some st => simp only [setAt]; exact this
  | poll target => exact hadv _ t
  | pollMs ms => exact hadv _ t

/-- number of polls of a history -/
def polls : List Op → Nat
  | [] => 0
  | .poll _ :: os => polls os + 1
  | .pollMs _ :: os => polls os + 1
  | _ :: os => polls os

/-- **How far the wheel can run ahead of the clock it was shown.** Every poll
leaves `self.tick` at most at `max target self.tick + 1`: a poll that returns
`None` ends one tick past its target, and a poll whose target is behind
`self.tick` is widened to `self.tick`. So the wheel is ahead of the largest
target by at most the number of polls; when every drain (polls up to the first
`None`) happens at a later tick than the previous one, as the event loop does
(`next_poll_date` of anything pending is in the future of the clock), it is
ahead by at most one and, by `C16_timer_fires_exactly_once`, a poll with
`self.tick ≤ target` fires nothing before its tick. Re-polling the *same* tick
after a `None` does fire the next tick's timeouts early
(`C16_timer_early_by_one_tick_witness`). -/
theorem C16_timer_tick_bound (a b : Nat) (ops : List Op) :
    (reach a b ops).tick ≤ maxTarget a ops + polls ops ∧ (reach a b ops).tickMs = a := by
  unfold reach
  suffices h : ∀ (t : T) (ops : List Op), Inv t →
      (run t ops).tick ≤ max t.tick (maxTarget t.tickMs ops) + polls ops ∧
        (run t ops).tickMs = t.tickMs by
    have := h (T.new a b) ops (inv_new a b)
    simp only [T.new] at this ⊢
    constructor
    · have h0 := this.1; simp only [Nat.zero_max] at h0; exact h0
    · exact this.2
  intro t ops
  induction ops generalizing t with
  | nil => intro _; exact ⟨by simp [run, polls, maxTarget], rfl⟩
  | cons o os ih =>
    intro hi
    have hs := step_inv hi o
    have hk := step_tickMs t o
    obtain ⟨h1, h2⟩ := ih (step t o).1 hs
    show (run (step t o).1 os).tick ≤ _ ∧ (run (step t o).1 os).tickMs = _
    rw [hk] at h1 h2
    refine ⟨?_, h2⟩
    cases o with
    | set ms st =>
      rw [show (step t (.set ms st)).1.tick = t.tick from (setAt_spec hi ms st).2.1] at h1
      simpa [maxTarget, polls] using h1
    | cancel k tick =>
      rw [show (step t (.cancel k tick)).1.tick = t.tick from (cancel_spec hi k tick).2.1] at h1
      simpa [maxTarget, polls] using h1
    | reset k tick ms =>
      have ht : (step t (.reset k tick ms)).1.tick = t.tick := by
        simp only [step, resetAt]
        have hc := cancel_spec hi k tick
        cases hcr : cancel t k tick with
        | mk r t1 =>
          rw [hcr] at hc
          cases r with
          | none => simp only; exact hc.2.1
          | some st => simp only; rw [(setAt_spec hc.1 ms st).2.1, hc.2.1]
      rw [ht] at h1
      simpa [maxTarget, polls] using h1
    | poll target =>
      have := (pollTo_inv hi target).2.2
      have hh : (step t (.poll target)).1 = (pollTo t target).2 := rfl
      rw [hh] at h1 ⊢
      simp only [maxTarget, polls]
      omega
    | pollMs ms =>
      have := (pollTo_inv hi (durationToTick ms t.tickMs)).2.2
      have hh : (step t (.pollMs ms)).1 = (pollTo t (durationToTick ms t.tickMs)).2 := rfl
      rw [hh] at h1 ⊢
      simp only [maxTarget, polls]
      omega

/-- **A cancelled timeout never fires; a reset one only at its new deadline.**
After any history, `cancel_timeout` of a handle returns a state exactly when a
pending timeout carries that token and that tick; that timeout is then gone
(and by `C16_timer_fires_exactly_once` only pending timeouts fire), every other
one stays. `reset_timeout` is this followed by a fresh `set`: the new handle's
tick is in the future of the wheel. -/
theorem C16_timer_cancel (a b : Nat) (ops : List Op) (k tick : Nat) :
    let t := reach a b ops
    let r := cancel t k tick
    ((∃ e ∈ t.items, e.tok = k ∧ e.tick = tick) ↔ r.1.isSome) ∧
    (r.1.isSome → (∀ x ∈ r.2.items, x.tok ≠ k) ∧
        r.2.items = t.items.filter (fun x => x.tok != k) ∧
        ∃ e ∈ t.items, e.tok = k ∧ e.tick = tick ∧ r.1 = some e.st) ∧
    (r.1 = none → r.2 = t) ∧
    (∀ ms h t', resetAt t k tick ms = (some h, t') →
        t.tick < h.2 ∧ ∃ e ∈ t.items, e.tok = k ∧ e.tick = tick ∧
          t'.items = ⟨h.1, h.2, e.st⟩ :: t.items.filter (fun x => x.tok != k)) := by
  intro t r
  have hi : Inv t := reach_inv a b ops
  have hc := cancel_spec hi k tick
  rcases hc.2.2 with ⟨h1, h2, h3⟩ | ⟨e, hm, hk, ht, hr, hit⟩
  · refine ⟨⟨fun h => absurd h h3, fun h => by rw [show r.1 = none from h1] at h; cases h⟩, ?_, fun _ => h2, ?_⟩
    · intro h; rw [show r.1 = none from h1] at h; cases h
    · intro ms h t' hres
      simp only [resetAt] at hres
      have : cancel t k tick = (none, (cancel t k tick).2) := by
        cases hh : cancel t k tick with
        | mk x y => simp only [hh] at h1; simp [h1]
      rw [this] at hres; cases hres
  · refine ⟨⟨fun _ => by rw [show r.1 = some e.st from hr]; rfl, fun _ => ⟨e, hm, hk, ht⟩⟩, ?_, ?_, ?_⟩
    · intro _
      refine ⟨?_, hit, e, hm, hk, ht, hr⟩
      intro x hx; rw [show r.2.items = removeTok t.items k from hit] at hx
      exact (mem_removeTok.1 hx).2
    · intro h; rw [show r.1 = some e.st from hr] at h; cases h
    · intro ms h t' hres
      simp only [resetAt] at hres
      have hcc : cancel t k tick = (some e.st, (cancel t k tick).2) := by
        cases hh : cancel t k tick with
        | mk x y => simp only [hh] at hr; simp [hr]
      rw [hcc] at hres
      simp only at hres
      have hs := setAt_spec hc.1 ms e.st
      cases hres
      refine ⟨by have := hs.2.2.1; rw [hc.2.1] at this; exact this, e, hm, hk, ht, ?_⟩
      rw [hs.2.2.2.1, hit]; rfl

/-- **Wrap-around.** After any history, a pending timeout whose tick is beyond
`max target self.tick` survives `poll_to(target)` whatever the number of slots:
in particular one armed several revolutions ahead (`tick ≥ self.tick + slots`),
whose slot is visited `slots` ticks early, is skipped there and stays armed. -/
theorem C16_timer_wraparound (a b : Nat) (ops : List Op) (target : Nat) :
    let t := reach a b ops
    ∀ e ∈ t.items, max target t.tick < e.tick → e ∈ (pollTo t target).2.items := by
  intro t e he hlt
  have hi : Inv t := reach_inv a b ops
  cases h : pollTo t target with
  | mk r t' =>
    cases r with
    | none => rw [(pollTo_none hi h).1]; exact he
    | some st =>
      obtain ⟨e', hm', _, hle', hit, _⟩ := pollTo_some hi h
      simp only; rw [hit]
      refine mem_removeTok.2 ⟨he, ?_⟩
      intro hk
      have h1 := findTok_mem_nodup he hi.nodup
      have h2 := findTok_mem_nodup hm' hi.nodup
      rw [hk, h2] at h1; cases h1; omega

/-- operations other than polls -/
def quiet : Op → Bool
  | .poll _ => false
  | .pollMs _ => false
  | _ => true

theorem step_cov {t : T} (hi : Inv t) (hc : Cov t) (op : Op) :
    Cov (step t op).1 ∧ (quiet op = true → Full t → Full (step t op).1) := by
  cases op with
  | set ms st => exact ⟨(setAt_cov hi hc ms st).1, fun _ => (setAt_cov hi hc ms st).2⟩
  | cancel k tick => exact ⟨(cancel_cov hi hc k tick).1, fun _ => (cancel_cov hi hc k tick).2⟩
  | reset k tick ms =>
    simp only [step, resetAt]
    have h1 := cancel_cov hi hc k tick
    have h2 := cancel_spec hi k tick
    cases hcr : cancel t k tick with
    | mk r t1 =>
      rw [hcr] at h1 h2
      cases r with
      | none => exact ⟨h1.1, fun _ => h1.2⟩
      | some st =>
        have h3 := setAt_cov h2.1 h1.1 ms st
        exact ⟨h3.1, fun _ hf => h3.2 (h1.2 hf)⟩
  | poll target => exact ⟨(pollTo_cov hi hc target).1, fun h => by cases h⟩
  | pollMs ms => exact ⟨(pollTo_cov hi hc _).1, fun h => by cases h⟩

theorem run_cov {t : T} (hi : Inv t) (hc : Cov t) (ops : List Op) : Cov (run t ops) := by
  induction ops generalizing t with
  | nil => exact hc
  | cons o os ih => exact ih (step_inv hi o) (step_cov hi hc o).1

theorem run_full {t : T} (hi : Inv t) (hc : Cov t) (hf : Full t) (ops : List Op)
    (hq : ∀ o ∈ ops, quiet o = true) : Full (run t ops) := by
  induction ops generalizing t with
  | nil => exact hf
  | cons o os ih =>
    exact ih (step_inv hi o) (step_cov hi hc o).1
      ((step_cov hi hc o).2 (hq o List.mem_cons_self) hf)
      (fun o' ho' => hq o' (List.mem_cons_of_mem _ ho'))

/-- **The event loop always wakes in time** (partial: in drained states).
Take any history `pre`, then a poll that returns `None` (the end of the event
loop's drain), then any number of `set` / `cancel` / `reset` operations: for
every pending timeout `next_tick()` is some tick not later than the timeout's
tick (in particular it is not `TICK_MAX`), so `next_poll_date()` is not later
than the earliest pending deadline. The same holds before the first poll. -/
theorem C16_timer_next_poll_date_partial (a b : Nat) (pre post : List Op) (target : Nat)
    (hq : ∀ o ∈ post, quiet o = true) :
    (let t0 := reach a b pre
     (pollTo t0 target).1 = none →
       let t := run (pollTo t0 target).2 post
       ∀ e ∈ t.items, ∃ n, nextTick t = some n ∧ n ≤ e.tick) ∧
    (let t := reach a b post
     ∀ e ∈ t.items, ∃ n, nextTick t = some n ∧ n ≤ e.tick) := by
  have key : ∀ t : T, Inv t → Cov t → Full t →
      ∀ e ∈ (run t post).items, ∃ n, nextTick (run t post) = some n ∧ n ≤ e.tick := by
    intro t hi hc hf e he
    have := nextTick_le (run_inv hi post) (run_cov hi hc post) (run_full hi hc hf post hq) e he
    cases hn : nextTick (run t post) with
    | none => rw [hn] at this; cases this
    | some n => rw [hn] at this; exact ⟨n, rfl, this⟩
  constructor
  · intro t0 hnone t
    have hi0 : Inv t0 := reach_inv a b pre
    have hc0 : Cov t0 := run_cov (inv_new a b) (cov_new a b).1 pre
    exact key _ (pollTo_inv hi0 target).1 (pollTo_cov hi0 hc0 target).1 ((pollTo_cov hi0 hc0 target).2 hnone)
  · exact key _ (inv_new a b) (cov_new a b).1 (cov_new a b).2

/-- the hypotheses are satisfiable by a non-trivial state: a drained poll, then a
`set`, two timeouts pending, the nearer one announced -/
example :
    let t0 := reach 10 8 [.set 250 1]
    let t := run (pollTo t0 8).2 [.set 300 2]
    (pollTo t0 8).1 = none ∧ t.items.length = 2 ∧ nextTick t = some 25 := by decide

/-- The full-strength statement ("in every reachable state") is false of the
code: in the middle of a drain, after the head of a slot has fired, the slot's
`next_tick` has been wiped and the entry behind it is not announced, although
it is due now. (The event loop never stops there: it polls until `None`.) -/
theorem C16_timer_next_poll_date_counterexample :
    let t0 := (setAt (setAt (T.new 10 8) 50 1).2 50 2).2
    let t := (pollTo t0 5).2
    (pollTo t0 5).1 = some 2 ∧ t.items = [⟨0, 5, 1⟩] ∧ t.tick = 5 ∧ nextTick t = none := by decide

/-- The converse direction is not a property of the code either: a cancelled
timeout's tick stays in its slot's `next_tick` until the wheel passes it, so
`next_tick()` can announce a wake-up although nothing is pending (a spurious
wake-up of the event loop, never a missed one). -/
theorem C16_timer_next_poll_date_stale_witness :
    let t := (cancel (setAt (T.new 10 8) 50 1).2 0 5).2
    t.items = [] ∧ nextTick t = some 5 := by decide

/-- a timeout more than one revolution ahead really is skipped on the early
visit of its slot and fires at its own tick (8 slots, 10 ms: 250 ms) -/
example :
    let t0 := (setAt (T.new 10 8) 250 1).2
    (drain 3 t0 17).1 = [] ∧ (drain 3 (drain 3 t0 17).2 25).1 = [1] := by decide

/-- **Rounding, stated precisely.** `duration_to_tick` rounds to the closest
tick: the nominal time `k * tick_ms` of the chosen tick `k` lies within half a
tick of the requested deadline `ms`, on either side. A deadline can therefore
be moved up to half a tick earlier. -/
theorem C16_timer_rounding (ms tickMs : Nat) (h : 0 < tickMs) :
    let k := durationToTick ms tickMs
    k * tickMs ≤ ms + tickMs / 2 ∧ ms + tickMs / 2 < (k + 1) * tickMs := by
  intro k
  constructor
  · exact Nat.div_mul_le_self _ _
  · have := Nat.lt_mul_div_succ (ms + tickMs / 2) h
    rw [Nat.mul_comm] at this
    exact this

/-- **How early a timeout can fire, in wall-clock terms.** A timeout asked for
`ms` (from `start`) gets tick `duration_to_tick ms`. By
`C16_timer_fires_exactly_once` it fires only when its tick is at most
`max target self.tick`; when the wheel is at most one tick ahead of the targets
it was shown (the event-loop pattern of `C16_timer_tick_bound`), that is at
most one more than `duration_to_tick now` for the time `now` of the poll. Then
`ms < now + 2 * tick_ms`: strictly less than two ticks early (one from the two
roundings, one from the look-ahead), never more. -/
theorem C16_timer_early_bound (ms now tickMs : Nat) (h : 0 < tickMs)
    (hfire : durationToTick ms tickMs ≤ durationToTick now tickMs + 1) :
    ms < now + 2 * tickMs := by
  have h1 := (C16_timer_rounding ms tickMs h).2
  have h2 := (C16_timer_rounding now tickMs h).1
  have h3 : (durationToTick ms tickMs + 1) * tickMs ≤ (durationToTick now tickMs + 2) * tickMs :=
    Nat.mul_le_mul_right _ (by omega)
  have h4 : (durationToTick now tickMs + 2) * tickMs = durationToTick now tickMs * tickMs + 2 * tickMs := by
    rw [Nat.add_mul]
  omega

/-- the hypothesis is satisfiable at the boundary: 100 ms ticks, deadline 1049 ms
(tick 10), shown 850 ms (tick 9): 199 ms early -/
example : durationToTick 1049 100 ≤ durationToTick 850 100 + 1 ∧ 1049 < 850 + 2 * 100 := by decide

/-- the look-ahead is real: 100 ms ticks, a timeout for t = 1000 ms (tick 10)
fires on the second poll at tick 9 -/
theorem C16_timer_early_by_one_tick_witness :
    let t0 := (setAt (T.new 100 8) 1000 3).2
    (pollTo t0 9).1 = none ∧ (pollTo (pollTo t0 9).2 9).1 = some 3 := by decide

end Sozu.Timer
