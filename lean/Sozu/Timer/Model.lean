/-
C16 (timer): executable model of the hashed timer wheel `lib/src/timer.rs`
(`Timer<T>`), transcribing what the code does. Import-free.

Representation (the decisions of the code are kept branch for branch, the
pointer structure is replaced by its functional reading):

* the slab `entries` is the list `items` (most recently inserted first) plus
  the slab's key allocator (`free` = LIFO stack of vacated keys, `cap` =
  `entries.len()`); an entry's slot is `tick & mask` = `tick % slots`
  (`slots` is a power of two), so the doubly linked list of slot `s`, head
  first, is `items.filter (slot = s)` (`insert` puts a new entry at the head);
* `wheel[s].next_tick` is `nts[s]`, `none` standing for `TICK_MAX`;
* the cursor `self.next` (a token into the list of the current slot, or
  `EMPTY`) is `todo`: the tokens from the cursor to the end of the current
  slot's list (`[]` = `EMPTY`); following `links.next` is taking the tail,
  `unlink` removes the token from it;
* time is a `Nat` of milliseconds since `start`; `duration_to_tick` and the
  `tick <= self.tick` bump of `set_timeout_at` are as coded.
-/
namespace Sozu.Timer

structure Entry where
  tok : Nat
  tick : Nat
  st : Nat
  deriving DecidableEq, Repr

structure T where
  tickMs : Nat
  slots : Nat
  nts : List (Option Nat)
  items : List Entry
  tick : Nat
  todo : List Nat
  free : List Nat
  cap : Nat
  deriving Repr

/-- `usize::next_power_of_two` (0 ↦ 1). -/
def nextPow2Aux : Nat → Nat → Nat → Nat
  | 0, p, _ => p
  | fuel + 1, p, n => if n ≤ p then p else nextPow2Aux fuel (2 * p) n

def nextPow2 (n : Nat) : Nat := nextPow2Aux 64 1 n

/-- `Timer::new(tick_ms, num_slots, capacity, start)`. -/
def T.new (tickMs numSlots : Nat) : T :=
  let slots := nextPow2 numSlots
  { tickMs := tickMs, slots := slots, nts := List.replicate slots none, items := [],
    tick := 0, todo := [], free := [], cap := 0 }

/-- `duration_to_tick`: round to the closest tick (half a tick is added). -/
def durationToTick (ms tickMs : Nat) : Nat := (ms + tickMs / 2) / tickMs

def slotOf (t : T) (tick : Nat) : Nat := tick % t.slots

/-- the linked list of slot `s`, head first -/
def view (t : T) (s : Nat) : List Entry := t.items.filter (fun e => e.tick % t.slots == s)

def getNt (t : T) (s : Nat) : Option Nat := (t.nts.getD s none)

/-- `cmp::min(x, next_tick)` with `none = TICK_MAX` -/
def minNt (nt : Option Nat) (x : Nat) : Option Nat :=
  match nt with
  | none => some x
  | some a => some (min a x)

def findTok (items : List Entry) (k : Nat) : Option Entry := items.find? (fun e => e.tok == k)

def removeTok (items : List Entry) (k : Nat) : List Entry := items.filter (fun e => e.tok != k)

/-- `Slab::insert`'s key: the most recently vacated key, else `len`. -/
def alloc (t : T) : Nat × List Nat × Nat :=
  match t.free with
  | k :: fs => (k, fs, t.cap)
  | [] => (t.cap, [], t.cap + 1)

/-- `set_timeout_at(delay_from_start, state)` then `insert`. Returns the
    `Timeout { token, tick }`. -/
def setAt (t : T) (ms st : Nat) : (Nat × Nat) × T :=
  let d := durationToTick ms t.tickMs
  let tick := if d ≤ t.tick then t.tick + 1 else d
  let s := slotOf t tick
  let (k, fs, cap) := alloc t
  ((k, tick),
   { t with items := ⟨k, tick, st⟩ :: t.items,
            nts := t.nts.set s (minNt (getNt t s) tick),
            free := fs, cap := cap })

/-- `cancel_timeout(&Timeout { token, tick })` -/
def cancel (t : T) (k tick : Nat) : Option Nat × T :=
  match findTok t.items k with
  | none => (none, t)
  | some e =>
    if e.tick ≠ tick then (none, t)
    else (some e.st,
          { t with items := removeTok t.items k,
                   todo := t.todo.filter (fun x => x != k),
                   free := k :: t.free })

/-- `reset_timeout(&timeout, delay)` with the new deadline given from `start`. -/
def resetAt (t : T) (k tick ms : Nat) : Option (Nat × Nat) × T :=
  match cancel t k tick with
  | (none, t') => (none, t')
  | (some st, t') => let (h, t'') := setAt t' ms st; (some h, t'')

inductive Scan where
  | fire (e : Entry) (rest : List Nat) (nt : Option Nat)
  | done (nt : Option Nat)

/-- The `else` branch of `poll_to`'s loop, iterated along the current slot's
    list from the cursor: skip (and fold into `next_tick`) entries of later
    revolutions, stop at the first one that is due. -/
def scan (tick : Nat) (items : List Entry) : List Nat → Option Nat → Scan
  | [], nt => .done nt
  | k :: rest, nt =>
    match findTok items k with
    | none => scan tick items rest nt
    | some e => if e.tick ≤ tick then .fire e rest nt else scan tick items rest (minNt nt e.tick)

/-- `curr == self.wheel[slot].head` for the cursor token `k` -/
def isHead (t : T) (s k : Nat) : Bool :=
  match view t s with
  | [] => false
  | e :: _ => e.tok == k

/-- Visit the current slot from the cursor on. -/
def scanCurrent (t : T) : Option Nat × T :=
  match t.todo with
  | [] => (none, t)
  | k :: _ =>
    let s := slotOf t t.tick
    let nt0 := if isHead t s k then none else getNt t s
    match scan t.tick t.items t.todo nt0 with
    | .fire e rest nt =>
      (some e.st, { t with items := removeTok t.items e.tok, todo := rest,
                           nts := t.nts.set s nt, free := e.tok :: t.free })
    | .done nt => (none, { t with todo := [], nts := t.nts.set s nt })

/-- The `if curr == EMPTY` branch: advance one tick and load that slot. -/
def bump (t : T) : T :=
  let tick := t.tick + 1
  let s := tick % t.slots
  let v := (t.items.filter (fun e => e.tick % t.slots == s))
  { t with tick := tick, todo := v.map (·.tok),
           nts := if v.isEmpty then t.nts.set s none else t.nts }

/-- `while self.tick <= target_tick { … }` with `n = target_tick + 1 - self.tick`. -/
def advance : Nat → T → Option Nat × T
  | 0, t => (none, t)
  | n + 1, t =>
    match scanCurrent t with
    | (some st, t') => (some st, t')
    | (none, t') => advance n (bump t')

/-- `poll_to(target_tick)` -/
def pollTo (t : T) (target : Nat) : Option Nat × T :=
  advance (max target t.tick + 1 - t.tick) t

/-- `min` of two `next_tick`s (`none = TICK_MAX`) -/
def minOpt (acc nt : Option Nat) : Option Nat :=
  match acc, nt with
  | none, x => x
  | some a, none => some a
  | some a, some b => some (min a b)

/-- "there is data ready right now": the cursor's slot says so -/
def readyNow (t : T) : Bool :=
  match t.todo with
  | [] => false
  | k :: _ =>
    match findTok t.items k with
    | none => false
    | some e => getNt t (slotOf t e.tick) == some t.tick

/-- `next_tick()` -/
def nextTick (t : T) : Option Nat :=
  if readyNow t then some t.tick else t.nts.foldl minOpt none

inductive Op where
  | set (ms st : Nat)
  | cancel (k tick : Nat)
  | reset (k tick ms : Nat)
  | poll (target : Nat)
  | pollMs (ms : Nat)
  deriving Repr

inductive Out where
  | handle (k tick : Nat)
  | state (st : Option Nat)
  | noHandle
  deriving Repr, DecidableEq

def step (t : T) : Op → T × Out
  | .set ms st => let (h, t') := setAt t ms st; (t', .handle h.1 h.2)
  | .cancel k tick => let (r, t') := cancel t k tick; (t', .state r)
  | .reset k tick ms =>
    match resetAt t k tick ms with
    | (none, t') => (t', .noHandle)
    | (some h, t') => (t', .handle h.1 h.2)
  | .poll target => let (r, t') := pollTo t target; (t', .state r)
  | .pollMs ms => let (r, t') := pollTo t (durationToTick ms t.tickMs); (t', .state r)

def run (t : T) (ops : List Op) : T := ops.foldl (fun s o => (step s o).1) t

end Sozu.Timer
