import Sozu.Common.Proto
import Sozu.Common.KMap
